"""C04 - log-densities are the documented normalised densities in every parameterisation.

E3 configuration explorer.  Four kinds of cells, all enumerated completely inside the bound:

* ``gauss``  : one cell per (target covariance {iso, diag, full, band} x parameterisation {cov, prec, sqrtcov,
               sqrtprec} x dim); inside the cell the full product of data shapes {scalar, vector, diagonal, dense,
               sparse csr/csc/dia} x both sides of the dense/sparse switch (natively at dims <=75 / >=76 and by
               moving cuqi.config.MIN_DIM_SPARSE next to the dimension, restored in a finally block) x passing
               forms {array, list, callable conditioned later, None conditioned later} x mean forms {0, scalar,
               vector, list, callable} x square-root factor kinds {symmetric, upper-triangular} x point alphabet
               {0, mean, basis, generic points}.  All forms of a cell denote one and the same N(mean, Sigma); each
               is compared with the explicit -(k/2)log 2pi - 1/2 logdet - 1/2 r^T Sigma^-1 r, hence pairwise.
               Two further facets: ``scale`` - the same cells with the target covariance multiplied by 2^-30 and 2^30
               (every datum is the correspondingly scaled one, the points are the same in the coordinates
               standardised by the scale; reference = dense slogdet/solve on the scaled matrix; a non-finite logpdf
               is a verdict of its own, ``logpdf-finite``); ``int`` target - integer-valued data of every
               parameterisation (scalar, vector, diagonal, dense symmetric, dense triangular factor, sparse) given
               as float64 / integer dtype / nested lists of python ints / python int scalar, crossed with the mean
               given as python int / integer array / list of ints (and float controls) and integer-typed points.
* ``fam``    : one cell per (family x parameter set) for Normal, Laplace, SmoothedLaplace, Cauchy, Gamma,
               InverseGamma, Beta, Uniform, Lognormal, ModifiedHalfNormal; inside: dims {1,2,3,2x2} x passing forms
               (scalar broadcast over int / Image2D / tuple geometries, arrays, lists, mixed scalar/vector, callable
               and None conditioned later) x points inside and outside the support x {logpdf, pdf, logd, cdf};
               for dim 1 quadrature of the density and of cdf increments.  One more parameter set per family is
               integer-valued and adds the facet representation {float64, integer dtype / python ints}.
               Facet ``magnitude of the parameters``: one more cell per (family x magnitude): parameter set 0 with EVERY
               parameter multiplied by 2^10 / by 2^-10 (sharply concentrated or nearly degenerate shapes, huge / tiny
               scales, rates and bounds - extreme but legal values) and, for the families with a location (Normal,
               Laplace, SmoothedLaplace, Cauchy, InverseGamma, Uniform bounds), with the location shifted by 2^20 (large
               common offset, differences of order one); crossed with dims x passing forms x points (incl. far-tail
               points) x {logpdf, pdf, logd, cdf} x origins; the unscaled set is enumerated inside the same cell as
               control, so the facet is named in a signature exactly when it discriminates.  Same explicit references
               (gammaln-based normalising constants); no quadrature there (the mass sits on a set the fixed
               break-points do not resolve).
* ``mrf``    : one cell per (GMRF / LMRF / CMRF x physical dim x N); inside: (bc, order) x geometry kinds x
               location forms (incl. python int, integer array) x hyper-parameter forms (incl. python int,
               integer array) x {0, basis, generic points}.
* ``user``   : UserDefinedDistribution / gallery BivariateGaussian.

Facet ``origin`` (how the distribution object was obtained), crossed with the configurations of the fam cells
(all), of the Gaussian cells (data shapes x paths x factor kinds; unconditional and two conditioning variables) and
of the MRF cells (bc x order x geometry; none / one / two conditioning variables): constructed directly / copy.copy /
copy.deepcopy / conditioning on nothing / reduction of a JointDistribution with one fixed variable (and a copy of the
result) / with two fixed variables at once and stepwise in both orders / the joint's get_density member after the
joint was conditioned / the member of the partially conditioned joint.  The fixed variables are the variables the
distribution depends on (callable / None parameters) completed by unrelated ones; their priors are Gamma / Normal /
Laplace with explicit reference log-densities.  All routes of one configuration run on ONE live base object, the
joint's own member last.  Every object must show the same logpdf, pdf, cdf and support as the documented density
(pdf integrates to one in 1-D), logd - logpdf constant in x, and for a reduced joint equal to the documented
log-densities of the fixed variables.

Facet ``scalar-like representation`` (how a parameter that is broadcast over the geometry is written): python scalar /
numpy scalar / 0-d array / one-element 1-D array / one-element list / (1,1) array (float-typed; integer-typed in the
integer-valued cells) for EVERY parameter of every family: fam cells - each parameter alone and all together x dim
{1,2,3} x source of the dimension {geometry=dim, another parameter given as a full vector} x {passed directly, value a
callable parameter is conditioned on, value a None parameter is conditioned on}; Gaussian (dims <= 5) - the scalar
datum of every parameterisation (directly / scale the callable datum is conditioned on / value of the None datum) and
the scalar mean (directly / value of the callable mean); MRFs - location and hyper-parameter (directly / value of the
callable).  Oracle unchanged: the documented density with the parameter broadcast to dim; a raise, a dimension other
than the geometry's, or - for the (1,1) array only - an answer that is not one number count as refusal.

Facet ``process history`` (fam and MRF cells): the object under test and a sibling of the SAME family and dimension but
other hidden structure (MRF: 1-D on N*N nodes <-> 2-D on N x N, other boundary condition, other order, other
hyper-parameter, other location; fam: other parameter values, scalar-broadcast <-> per-component parameters, image /
discrete <-> 1-D geometry) are built inside ONE cell, sibling first and target first; the earlier object is used before
the later one is built; afterwards both must show the documented density of their own configuration.  State shared
between objects of one process is thereby found inside every single cell, whatever else ran in the worker.

Signatures name only those facets that discriminate failing from passing configurations inside a cell.
The references are explicit textbook formulas written here (numpy / scipy.special only).
"""
import math
import numpy as np
from vfw.core import CellResult, close
from vfw import refs

PROPERTY = "C04"
RULE = ("cells = {gauss: target x parameterisation x dim x overall scale of the covariance} + {gauss-int: "
        "integer-valued datum x parameterisation x dim} + {fam: family x parameter set (incl. one integer-valued "
        "set)} + {fam-magnitude: family x magnitude of the parameters {all x 2^10, all x 2^-10, locations + 2^20}, "
        "unscaled control inside the cell} + {mrf: family x physical dim x N} + {user}; every cell enumerates the full inner product (data "
        "shapes x both sides of the dense/sparse switch x passing forms x mean/location forms x factor kinds "
        "[x representation of datum {float64, integer} x representation of mean {float, integer}] | dims x "
        "passing forms [x representation] | bc x order x geometry x location x hyper-parameter forms) x the whole "
        "point alphabet and compares logpdf/pdf/cdf/logd with explicit reference formulas (dense numpy slogdet / "
        "solve on the scaled matrix; plus quadrature in 1-D of exp(logpdf) and of pdf); facet origin = how the object "
        "was obtained {direct, copy, deepcopy, conditioning on nothing, joint distribution reduced with 1 fixed "
        "variable (+ copy of it), with 2 fixed variables {at once, a then b, b then a}, get_density member of the "
        "conditioned joint, member of the partially conditioned joint} crossed with the configurations (fam: all; "
        "Gaussian / MRF: the configurations with 0, 1, 2 conditioning variables), all routes on one live base "
        "object, same observables + logd - logpdf = reference log-density of the fixed variables; facet scalar-like "
        "representation {python scalar, numpy scalar, 0-d array, 1-element array, 1-element list, (1,1) array} of every "
        "broadcast parameter of every family (fam: each parameter alone / all together x dim {1,2,3} x dimension from "
        "geometry= / from another vector parameter x {direct, value of a callable, value of a None parameter}; Gaussian: "
        "scalar datum and scalar mean; MRF: location and hyper-parameter), same oracle (parameter broadcast to dim; "
        "refusal accepted); facet process history (fam, MRF): target and a same-dimension sibling of other hidden "
        "structure {MRF: physical dimension, bc, order, hyper-parameter, location; fam: parameter values, scalar vs "
        "vector parameters, geometry kind} built in one cell in both orders, the first used before the second exists, "
        "both compared with their own documented density afterwards; each inner "
        "configuration x origin is a state; a cell is non-trivial when at least one configuration was constructed "
        "and compared")
BOUND = {
    "quick": "one value catalogue (seed mod 3). Gaussian: 4 targets x 4 parameterisations x dims {1,2,3,75,76} x "
             "<=5 data shapes (3 sparse formats) x {dense,sparse path} x <=4 passing forms x 5 mean forms x <=2 "
             "factor kinds; points = 0, mean, basis (complete for dim<=3, 4 vectors for dim>=75), 2 generic. "
             "Scale facet: covariance x {2^-30, 2^30} for all 4 targets x 4 parameterisations at dims {1,2,76}, "
             "all data shapes / paths / passing forms / factor kinds, mean forms {0, vector}, points standardised "
             "by the scale, no quadrature. Integer facet: 4 parameterisations x dims {1,2} x 6 data shapes "
             "(scalar, vector, diagonal, dense symmetric / triangular, sparse csr diagonal / full) x {float64, "
             "int64 / python int} x paths x passing forms (array, nested list, callable, None) x mean forms "
             "{int scalar, float / int vector, int list} + integer-typed points (array, list). "
             "10 univariate/iid families x (3-4 parameter sets + 1 integer-valued set x {float, integer "
             "representation}) x dims {1,2,3,2x2} x <=9 passing forms x (5+2dim "
             "inside + <=2dim outside) points; 1-D quadrature to 1e-7. Magnitude facet: 10 families x "
             "{x2^10, x2^-10} + 6 families with a location x {+2^20}, parameter set 0 transformed, x {unscaled control, "
             "transformed} x dims {1,2,3,2x2} x <=9 passing forms x the same point alphabet (positions relative to the "
             "transformed support / scale) + far-tail points x {logpdf, logd, pdf, cdf}, 5 origin routes for the "
             "transformed set, no quadrature, no scalar-like / process-history facet. MRFs 1-D N=2..6, 2-D N=2..3, (bc=zero, "
             "order 0..2) + (order 1, neumann/periodic) x 7 location forms (5 + python int + integer array) x "
             "<=4 hyper-parameter forms (float, 1-array, callable, python int). Origin facet: fam cells - all 10 "
             "routes at parameter set 0 and the integer-valued set (integer representation), 5 routes (copy, joint "
             "with 1 fixed, 2 fixed at once and b-then-a, member) at the other sets; per route 2 generic inside + "
             "<=2 outside points x {logpdf, logd, pdf, cdf}, 1-D quadrature of pdf for the 1-fixed-variable "
             "reduction; Gaussian (unscaled cells, dims {1,2,3}, and integer cells): 5 routes for (array datum, "
             "vector mean) and (callable datum, callable mean) [integer cells: callable datum, vector mean] x all "
             "data shapes / paths / factor kinds x all points of the cell x {logpdf, logd, pdf, cdf (dim<=2)}; MRFs: "
             "5 routes for (location, hyper-parameter) in {(vector, float), (vector, callable), (callable, "
             "callable)} x all bc / order / geometry x all points. Scalar-like facet: 6 representations; fam cells - every "
             "parameter alone + all together x dims {1,2,3} x {geometry=dim, other parameter a vector (dim>1)} x {direct, "
             "callable, None} (all-together: direct) at every parameter set (integer set: the 6 integer-typed "
             "representations), 2 inside + 2 outside points x {logpdf, logd, logd(cond.), pdf, cdf}; Gaussian unscaled "
             "and integer cells of dims <= 3 - scalar datum x 6 representations x {array, callable, None} x mean forms "
             "{scalar, vector, same representation}, mean x 5 further representations + callable mean conditioned on "
             "each of the 6 x directly passed data of every shape / path / factor; MRFs - location: 5 further "
             "representations + callable conditioned on each of 6, crossed with hyper-parameter {float, callable}; "
             "hyper-parameter: 4-5 further representations + callable conditioned on 5, crossed with location {vector, "
             "callable}; both in the same representation. Process-history facet: MRF cells - per (bc, order): siblings "
             "{1-D N*N <-> 2-D N x N (2-D cells; 1-D cells with square N), each other bc of the same order, each other "
             "order (GMRF, bc zero), hyper-parameter x 2, location 0} x {sibling first, target first}, all points of the "
             "cell; fam cells - dims {1,2,3,2x2} x {scalar-broadcast, per-component} x siblings {next value catalogue, "
             "other form, Discrete / 1-D geometry} x both orders, 2 inside + 2 outside points",
    "thorough": "all 3 value catalogues; Gaussian dims {1,2,3,4,5,74,75,76,77} with the complete basis and 4 "
                "generic points; scale facet at dims {1,2,3,4,5,75,76} with all 5 mean forms; integer facet at "
                "dims {1,2,3,4,76} with all 6 mean forms (scalar/vector/list x float/int); MRFs 1-D N=2..10, "
                "2-D N=2..4 and the integer 1-array hyper-parameter form for GMRF; origin facet: all 10 routes at "
                "every parameter set of the fam cells (magnitude cells included), Gaussian origin routes at every dimension (integer cells: dims<=4); "
                "scalar-like facet: Gaussian dims <= 5 (integer cells <= 4) and MRFs with the FULL product (datum / "
                "location representation) x (mean / hyper-parameter representation) x all passing forms, MRFs also the "
                "integer-typed representations of the integer-valued location and hyper-parameter; process-history "
                "facet for every N of the tier; otherwise as quick",
}
ASSUMPTIONS = [
    "far-tail points of the iid families (centre +- 60/2000 scale, 2000 scale above / 2^-40 scale next to a finite bound, "
    "exp(mean +- 40 sd) for Lognormal): the documented log-density is finite there although the density under/overflows; "
    "logpdf must equal it at 1e-9 (a refusal is accepted)",
    "values outside the dyadic catalogues (3 catalogues) and dimensions outside the listed ones are not covered",
    "overall scales other than 2^-30, 1, 2^30 are not covered; the scale facet is applied to the Gaussian covariance "
    "only, the iid families have the magnitude facet {all parameters x 2^10, x 2^-10, locations + 2^20} applied to parameter "
    "set 0 (magnitudes beyond 2^+-10 of shape parameters are not covered: the gammaln-based reference itself loses the "
    "1e-9 there; mixed magnitudes - one huge and one tiny parameter - are not covered; no quadrature in the magnitude "
    "cells: normalisation is decided by the reference formula; ModifiedHalfNormal's magnitude cells are masked by its "
    "known getter defect); MRFs have no magnitude facet; representations other than float64, int64 and python int/float (e.g. "
    "float32, int32, bool) are not covered; integer-valued parameters are small integers (|v| <= 8)",
    "multi-dimensional normalisation is decided by the reference formula only; quadrature is used for dim 1",
    "scalar-like facet: representations other than the 6 listed (e.g. float32 scalars, one-element tuples, 0-d / 1-element "
    "arrays of other dtypes) are not covered; a raise, a distribution whose dim differs from the geometry's, and - for the "
    "(1,1) array only - a logpdf that is not one number are accepted as refusal (a single wrong number never is); the "
    "scalar-like configurations are examined on a reduced point alphabet (fam: 2 inside + 2 outside points, no far-tail "
    "points, no quadrature); quick tier: at most one parameter of a Gaussian / MRF in a non-basic representation, or both "
    "in the same one (thorough: full product)",
    "process-history facet: histories of two objects (one sibling) per cell, same family only; the siblings differ from "
    "the target in ONE hidden facet; objects are used through logpdf / logd / pdf before the other is built (no sampling, "
    "no gradients: C03 / C10 subjects); Gaussian cells have no process-history facet (live-object histories: re-assignment "
    "engine)",
    "origin facet: joint distributions of at most 3 densities (x and <= 2 fixed variables), priors of the fixed "
    "variables Gamma / Normal / Laplace (none of whose parameter names equals the variable's name), no likelihoods "
    "(posteriors are C05's subject); the routes other than direct are examined only where the directly constructed "
    "object's logpdf is right, on a reduced point alphabet; a route the library refuses (or that does not return "
    "a single distribution of the right dimension) is skipped; the value of logd - logpdf is demanded only for "
    "reduced joints (sum of the reference log-densities of the fixed variables), elsewhere only its constancy",
    "an exception is always accepted as a refusal (e.g. sparse non-diagonal matrices without cholmod, list-valued "
    "parameters of Normal/Uniform, Gaussian.cdf with a broadcast scalar mean); where logpdf is refused the "
    "un-normalised _logupdf is compared up to a constant",
    "square roots follow the documentation (as repaired by the fix: commit on the sqrtcov docstring): sqrtcov R with R R^T = cov, sqrtprec R with R^T R = prec; non-symmetric (triangular) factors are exercised for both",
    "SmoothedLaplace is compared with its documented formula (which is not normalised); ModifiedHalfNormal "
    "only up to an additive constant and only inside its support",
    "GMRF order 0/2 with neumann/periodic bc is decided by C20 (rank/log-determinant) and excluded here; "
    "regularised / iterative log-determinants of singular GMRF precisions are compared at 1e-5",
    "Gaussian.cdf (scipy mvn integration) is compared for dim<=2 only, tolerance 1e-6; LinearOperator sqrtprec and "
    "the cholmod code paths (not installed) are not covered",
    "numpy dense linear algebra, scipy.special and scipy.integrate.quad are the trusted base of the reference",
]

LOG2PI = math.log(2 * math.pi)
INF = float("inf")


# ========================================================================================
# generic helpers
# ========================================================================================
class _Tally:
    """Collects per-configuration verdicts of one cell and emits narrow signatures: a facet is named in the
    signature only if some but not all of its values tried inside the cell fail."""

    def __init__(self, res, component, base):
        self.res, self.component, self.base = res, component, base
        self.tried, self.bad, self.keys = {}, {}, []
        self.opbase = {}      # operation -> base used instead of self.base (e.g. a defect class that is not tied to the cell facets)

    def _note(self, op, fac):
        self.tried.setdefault(op, []).append(fac)
        self.res.count("%s:%s" % (self.component, op))
        for k in fac:
            if k not in self.keys:
                self.keys.append(k)

    def ok(self, op, fac):
        self._note(op, fac)
        self.res.evaluations += 1

    def fail(self, op, fac, msg, **detail):
        self._note(op, fac)
        self.res.evaluations += 1
        self.bad.setdefault(op, []).append((fac, msg, detail))

    def flush(self):
        for op in sorted(self.bad):
            F, T = self.bad[op], self.tried[op]
            base = self.opbase.get(op, self.base)
            parts = [base] if base else []
            for key in self.keys:      # in priority order; later keys are judged inside the earlier selection
                tv = {t[key] for t in T if key in t}
                fv = {f[key] for f, _, _ in F if key in f}
                if key in ("obtained", "origin") and fv == {"direct"}:
                    continue      # the other origins are examined only where the direct object is right: not a discriminating facet
                if len(tv) > 1 and fv and fv != tv:
                    parts.append("%s=%s" % (key, "+".join(sorted(fv))))
                    T = [t for t in T if t.get(key) in fv]
            f0, msg, det = F[0]
            self.res.fail("C04|%s|%s|%s" % (self.component, op, ",".join(parts) or "all"),
                          "%s [%d of %d compared configurations of this cell fail; first: %s]" %
                          (msg, len(F), len(self.tried[op]), f0), focus=f0, **det)


def _val(v):
    """A density value must be one number (a 0-d or one-element array is accepted)."""
    a = np.asarray(v, dtype=float)
    if a.size != 1:
        raise _NotScalar(a.shape)
    return float(a.ravel()[0])


class _NotScalar(Exception):
    pass


def _call(res, f, *a, **kw):
    """One evaluation of the real code: ('ok', value) / ('raised', exc) / ('shape', shape)."""
    res.transitions += 1
    try:
        out = f(*a, **kw)
    except Exception as e:  # refusal is allowed by the oracle (counted once per configuration by the caller)
        return "raised", e
    try:
        return "ok", _val(out)
    except _NotScalar as e:
        return "shape", e.args[0]
    except (TypeError, ValueError):
        return "shape", repr(type(out))


def _const(vals, rtol=1e-9):
    vals = np.asarray(vals, float)
    vals = vals[np.isfinite(vals)]
    if vals.size < 2:
        return True
    return close(vals, np.full(vals.shape, vals[0]), rtol)


# ========================================================================================
# provenance facet: how the distribution object was obtained
# ========================================================================================
# direct          constructed (and, for callable / None parameters, conditioned) directly
# copy, deepcopy  copy.copy / copy.deepcopy of the direct object;  call: direct() - conditioning on nothing
# joint1          JointDistribution(hyper-prior, x)(hyper=value): one fixed variable (the variable x depends on, or an
#                 unrelated one when x is unconditional);  joint1/copy: a copy of that
# joint2          JointDistribution(x, p, q)(p=.., q=..): two fixed variables at once;  joint2/a-b, joint2/b-a: stepwise
# member          JointDistribution.get_density("x") after the joint was conditioned (then conditioned directly)
# member/partial  get_density("x") of the joint with one of two variables fixed (then conditioned on the rest)
_ORIGINS_FULL = ("copy", "deepcopy", "call", "joint1", "joint1/copy", "joint2", "joint2/a-b", "joint2/b-a", "member",
                 "member/partial")
_ORIGINS_LIGHT = ("copy", "joint1", "joint2", "joint2/b-a", "member")


def _obtained(origin):
    """Coarse class of an origin (named first in signatures; the route is named only if it discriminates)."""
    return "joint" if origin.startswith("joint") else "member" if origin.startswith("member") else "copy"


def _hyper(cuqi, name, value, k, j):
    """An independent prior for a variable that is going to be fixed at ``value`` and the documented
    log-density of that prior at ``value`` (explicit formula).  The family is chosen such that none of its own
    parameters carries the variable's name."""
    v = np.atleast_1d(np.asarray(value, dtype=float)).ravel()
    n = v.size
    D = cuqi.distribution
    cands = []
    if np.all(v > 0):
        a, b = np.full(n, 2.5 + 0.5 * k + j), np.full(n, 0.75)
        cands.append((("shape", "rate"), lambda: D.Gamma(shape=a, rate=b, name=name),
                      lambda: _ref_logpdf("Gamma", {"shape": a, "rate": b}, v)))
    m, s = np.full(n, 0.25 - 0.5 * j), np.full(n, 1.5 + 0.25 * k)
    cands.append((("mean", "std"), lambda: D.Normal(mean=m, std=s, name=name),
                  lambda: _ref_logpdf("Normal", {"mean": m, "std": s}, v)))
    cands.append((("location", "scale"), lambda: D.Laplace(location=m, scale=float(s[0]), name=name),
                  lambda: _ref_logpdf("Laplace", {"location": m, "scale": s}, v)))
    for names, make, ref in cands:
        if name not in names:
            h = make()
            if h.dim != n:
                raise ValueError("hyper-prior of dimension %r for a value of size %d" % (h.dim, n))
            return h, float(ref())
    raise ValueError(name)


def _provenances(cuqi, res, d0, d, cond, k, wanted, dim):
    """Generator of (origin, object, documented logd - logpdf or None) for the distribution ``d`` (= ``d0``
    conditioned on ``cond``; d0 carries the name x).  The objects are produced one after the other on the SAME
    live base object d0, the joint's own member last.  A route the library refuses is skipped (counted)."""
    import copy as _copy
    D = cuqi.distribution

    def attempt(label, make):
        res.transitions += 1
        try:
            obj = make()
            if isinstance(obj, D.JointDistribution) or not all(hasattr(obj, a) for a in ("logpdf", "logd", "pdf")):
                raise TypeError("not a single distribution: %s" % type(obj).__name__)
            if obj.dim != dim:
                raise TypeError("dimension %r" % (obj.dim,))
        except Exception as e:
            res.refused += 1
            res.outcomes.add("origin-refused:%s:%s" % (label, type(e).__name__))
            return None
        return obj

    for label, make in (("copy", lambda: _copy.copy(d)), ("deepcopy", lambda: _copy.deepcopy(d)), ("call", lambda: d())):
        if label in wanted:
            obj = attempt(label, make)
            if obj is not None:
                yield label, obj, None
    free = [("h_free", 0.75 if k != 1 else 2), ("q_free", np.array([0.5, -1.25 + k]))]
    own = list(cond.items())
    fixed1 = own if len(own) == 1 else ([free[0]] if not own else None)
    fixed2 = own if len(own) == 2 else (own + [free[1]] if len(own) == 1 else free)
    joints = {}

    def joint(fixed, xfirst):
        """(joint distribution, sum of the documented log-densities of the fixed variables)"""
        key = tuple(n for n, _ in fixed)
        if key not in joints:
            hs, off = [], 0.0
            for j, (n, v) in enumerate(fixed):
                h, r = _hyper(cuqi, n, v, k, j)
                hs.append(h)
                off += r
            joints[key] = (D.JointDistribution(*([d0] + hs if xfirst else hs + [d0])), off)
        return joints[key]
    J = None
    if fixed1 is not None and ("joint1" in wanted or "joint1/copy" in wanted):
        off = [None]

        def make1():
            J1, off[0] = joint(fixed1, False)
            return J1(**dict(fixed1))
        g = attempt("joint1", make1)
        if g is not None:
            J = joints[tuple(n for n, _ in fixed1)][0]
            if "joint1" in wanted:
                yield "joint1", g, off[0]
            if "joint1/copy" in wanted:
                c = attempt("joint1/copy", lambda: _copy.copy(g))
                if c is not None:
                    yield "joint1/copy", c, off[0]
    (na, va), (nb, vb) = fixed2
    routes = (("joint2", lambda J2: J2(**dict(fixed2))), ("joint2/a-b", lambda J2: J2(**{na: va})(**{nb: vb})),
              ("joint2/b-a", lambda J2: J2(**{nb: vb})(**{na: va})))
    for label, route in routes:
        if label not in wanted and not (label == "joint2" and fixed1 is None and "joint1" in wanted):
            continue
        off = [None]

        def make2(route=route):
            J2, off[0] = joint(fixed2, True)
            return route(J2)
        g = attempt(label, make2)
        if g is not None:
            J = joints[tuple(n for n, _ in fixed2)][0]
            yield label, g, off[0]
    if "member/partial" in wanted and tuple(n for n, _ in fixed2) in joints:
        J2 = joints[tuple(n for n, _ in fixed2)][0]

        def makep():
            m = J2(**{nb: vb}).get_density("x")
            rest = {n: v for n, v in cond.items() if n in m.get_conditioning_variables()}
            return m(**rest) if rest else m
        obj = attempt("member/partial", makep)
        if obj is not None:
            yield "member/partial", obj, None
    if "member" in wanted and J is not None:
        def makem():
            m = J.get_density("x")
            return m(**cond) if cond else m
        obj = attempt("member", makem)
        if obj is not None:
            yield "member", obj, None


# ========================================================================================
# cells
# ========================================================================================
G_PARAMS = ["cov", "prec", "sqrtcov", "sqrtprec"]
G_SHAPES = {   # target -> [(shape, sparse format)]
    "iso": [("scalar", ""), ("vector", ""), ("diagonal", ""), ("sparse", "csr"), ("sparse", "dia")],
    "diag": [("vector", ""), ("diagonal", ""), ("sparse", "csr"), ("sparse", "csc"), ("sparse", "dia")],
    "full": [("dense", ""), ("sparse", "csr")],
    "band": [("dense", ""), ("sparse", "csr"), ("sparse", "dia")],
}
G_DIMS = [1, 2, 3, 75, 76]
G_DIMS_THOROUGH = [1, 2, 3, 4, 5, 74, 75, 76, 77]
# scale facet: Sigma -> 2^e Sigma (power of two: the scaled data are exact images of the unscaled ones)
G_SCALES = [-30, 30]
G_SCALE_DIMS = [1, 2, 76]
G_SCALE_DIMS_THOROUGH = [1, 2, 3, 4, 5, 75, 76]
# representation facet: integer-valued data of every parameterisation given as float64 / integer dtype / python ints
G_INT_SHAPES = [("scalar", ""), ("vector", ""), ("diagonal", ""), ("dense", ""), ("sparse", "csr")]
G_INT_DIMS = [1, 2]
G_INT_DIMS_THOROUGH = [1, 2, 3, 4, 76]

FAMILIES = ["Normal", "Laplace", "SmoothedLaplace", "Cauchy", "Gamma", "InverseGamma", "Beta", "Uniform",
            "Lognormal", "ModifiedHalfNormal"]
F_DIMS = ["1", "2", "3", "2x2"]
# facet "magnitude of the parameters" of the iid families: parameter set 0 with EVERY parameter multiplied by 2^10 /
# 2^-10 (sharply concentrated / nearly degenerate shapes, huge / tiny scales - all legal), and with the location-type
# parameters shifted by 2^20 (large common offset, differences of order one; families that have a location)
F_MAGNITUDES = ["x2^10", "x2^-10", "+2^20"]
_MAG_FAMILIES = {"Gamma": ["x2^10", "x2^-10"], "Beta": ["x2^10", "x2^-10"], "Lognormal": ["x2^10", "x2^-10"],
                 "ModifiedHalfNormal": ["x2^10", "x2^-10"]}

MRF_COMBOS = [("zero", 0), ("zero", 1), ("zero", 2), ("neumann", 1), ("periodic", 1)]


def cells(tier, seed):
    thorough = tier != "quick"
    k0 = refs.cat(seed)
    cats = [k0] + ([c for c in range(refs.K_CATALOGUES) if c != k0] if thorough else [])
    for k in cats:
        for dim in (G_DIMS_THOROUGH if thorough else G_DIMS):
            for target in ("iso", "diag", "full", "band"):
                if dim == 1 and target in ("full", "band"):
                    continue
                for param in G_PARAMS:
                    yield {"kind": "gauss", "target": target, "param": param, "dim": dim, "cat": k,
                           "full_basis": bool(thorough or dim <= 3), "ngeneric": 4 if thorough else 2,
                           "origins": bool(thorough or dim <= 3),
                           "sreps": ("cross" if thorough else "one") if dim <= 5 else ""}
        for e in G_SCALES:
            for dim in (G_SCALE_DIMS_THOROUGH if thorough else G_SCALE_DIMS):
                for target in ("iso", "diag", "full", "band"):
                    if dim == 1 and target in ("full", "band"):
                        continue
                    for param in G_PARAMS:
                        yield {"kind": "gauss", "target": target, "param": param, "dim": dim, "cat": k, "scale": e,
                               "means": "all" if thorough else "zero+vector",
                               "full_basis": bool(thorough or dim <= 3), "ngeneric": 4 if thorough else 2}
        for dim in (G_INT_DIMS_THOROUGH if thorough else G_INT_DIMS):
            for param in G_PARAMS:
                yield {"kind": "gauss", "target": "int", "param": param, "dim": dim, "cat": k,
                       "means": "all" if thorough else "reduced", "full_basis": bool(dim <= 4), "ngeneric": 2,
                       "origins": bool(dim <= 4), "sreps": ("cross" if thorough else "one") if dim <= 4 else ""}
        for fam in FAMILIES:
            for ps in range(len(_PSETS[fam])):
                yield {"kind": "fam", "family": fam, "pset": ps, "cat": k, "origins": "full" if (thorough or ps == 0) else "light"}
            yield {"kind": "fam", "family": fam, "pset": "int", "cat": k, "origins": "full"}
            for mag in F_MAGNITUDES:
                if mag in _MAG_FAMILIES.get(fam, F_MAGNITUDES):
                    yield {"kind": "fam", "family": fam, "pset": "mag:" + mag, "cat": k, "origins": "full" if thorough else "light"}
        n1 = range(2, 11) if thorough else range(2, 7)
        n2 = range(2, 5) if thorough else range(2, 4)
        for fam in ("GMRF", "LMRF", "CMRF"):
            for pd, rng in ((1, n1), (2, n2)):
                for N in rng:
                    yield {"kind": "mrf", "family": fam, "pd": pd, "N": N, "cat": k, "intforms": "all" if thorough else "scalar"}
        for d in (1, 2, 3):
            yield {"kind": "user", "dim": d, "cat": k}
        yield {"kind": "user", "dim": "gallery", "cat": k}
    from checks import _reassign
    for c in _reassign.cells(tier, seed):     # E1 add-on: use -> assign -> use histories on one live object
        yield c


def _reassign_observe(obj, pts):
    from checks._reassign import obs_call
    out = {}
    for i, x in enumerate(pts):
        out["logpdf"] = obs_call(lambda: obj.logpdf(x)) if i == 0 else out["logpdf"]
        out["logd-minus-logpdf"] = obs_call(lambda: np.asarray(obj.logd(x), float) - np.asarray(obj.logpdf(x), float)) if i == 1 else out.get("logd-minus-logpdf", ("exc", "-"))
    out["cdf"] = obs_call(lambda: obj.cdf(pts[0])) if obj.dim <= 2 else ("exc", "skipped")
    if hasattr(type(obj), "compute_cov") and obj.dim <= 6:
        # the covariance the object reports: the cached/explicit one when available, else the computed one
        c = obs_call(lambda: obj.cov)
        out["cov"] = c if c[0] == "val" and c[1].ndim == 2 and c[1].shape[0] == obj.dim else obs_call(lambda: obj.compute_cov())
    else:
        out["cov"] = ("exc", "skipped")
    return out


def eval_cell(cell):
    if cell.get("fam") == "reassign":
        from checks import _reassign
        return _reassign.eval_cell(cell, PROPERTY, _reassign_observe, "logpdf/logd/cdf live vs fresh")
    res = CellResult(cell)
    kind = cell["kind"]
    if kind == "gauss":
        _eval_gauss(cell, res)
    elif kind == "fam":
        _eval_family(cell, res)
    elif kind == "mrf":
        _eval_mrf(cell, res)
    else:
        _eval_user(cell, res)
    if res.evaluations == 0:
        res.nontrivial = False
    return res


# ========================================================================================
# Gaussian
# ========================================================================================
def _target_cov(target, dim, k):
    if target == "iso":
        return [2.0, 0.5, 1.25][k] * np.eye(dim)
    if target == "diag":
        return np.diag([0.5 + 0.25 * ((3 * i + k) % 5) for i in range(dim)])
    if target == "full":
        S = refs.spd_matrix(dim, k)
        if np.count_nonzero(S - np.diag(np.diag(S))) == 0:
            raise AssertionError("harness self-check: 'full' target is diagonal")
        return S
    # band: the precision is R^T R with an upper bidiagonal R (non-unit diagonals, as in the docstring example)
    R = _band_factor(dim, k)
    return np.linalg.inv(R.T @ R)


def _band_factor(dim, k):
    R = np.zeros((dim, dim))
    for i in range(dim):
        R[i, i] = 1.0 + 0.25 * ((i + k) % 3)
        if i + 1 < dim:
            R[i, i + 1] = -0.5 - 0.25 * ((i + 2 * k) % 2)
    return R


def _sym_sqrt(M):
    w, V = np.linalg.eigh((M + M.T) / 2)
    return (V * np.sqrt(w)) @ V.T


def _gauss_data(target, shape, fmt, param, factor, dim, k, e=0):
    """The documented datum of ``param`` for the target covariance 2^e * Sigma_target in the given data shape.
    cov = Sigma, prec = Sigma^-1, sqrtcov R with R R^T = Sigma, sqrtprec R with R^T R = Sigma^-1."""
    import scipy.sparse as sp
    c = 2.0 ** e
    Sigma = c * _target_cov(target, dim, k)
    M = Sigma if param in ("cov", "sqrtcov") else np.linalg.inv(Sigma)
    M = (M + M.T) / 2
    if param.startswith("sqrt"):
        if target in ("iso", "diag"):
            M = np.diag(np.sqrt(np.diag(M)))
        elif factor == "sym":
            M = _sym_sqrt(M)
        elif target == "band" and param == "sqrtprec":
            M = _band_factor(dim, k) / math.sqrt(c)           # exactly bidiagonal
        else:
            # triangular (non-symmetric) factor in the documented convention of each parameter:
            # sqrtcov R with R R^T = cov (lower Cholesky), sqrtprec R with R^T R = prec (upper Cholesky)
            M = np.linalg.cholesky(M) if param == "sqrtcov" else np.linalg.cholesky(M).T
    if shape == "scalar":
        return float(M[0, 0])
    if shape == "vector":
        return np.diag(M).copy()
    if shape in ("diagonal", "dense"):
        return M
    if fmt == "csr":
        return sp.csr_matrix(M)
    if fmt == "csc":
        return sp.csc_matrix(M)
    return sp.dia_matrix(M)


# ---- integer-valued data (representation facet) -------------------------------------------------------------
def _int_vec(dim, k):
    return np.array([2 + ((3 * i + k) % 4) for i in range(dim)], dtype=np.int64)            # entries 2..5 (1 would hide x -> 1/x, x^2, log x mistakes)


def _int_mean(dim, k):
    return np.array([((3 * i + 2 * k) % 7) - 3 for i in range(dim)], dtype=np.int64)        # entries -3..3


def _int_sym(dim, k):
    """Integer symmetric positive definite (strictly diagonally dominant tridiagonal) matrix."""
    M = np.diag(3 + _int_vec(dim, k))
    for i in range(dim - 1):
        M[i, i + 1] = M[i + 1, i] = 1 if (i + k) % 2 == 0 else -1
    return M


def _int_tri(dim, k, lower):
    """Integer invertible bidiagonal (non-symmetric) factor."""
    R = np.diag(_int_vec(dim, k + 1))
    for i in range(dim - 1):
        R[i, i + 1] = -1 if (i + k) % 2 == 0 else 2
    return R.T.copy() if lower else R


def _int_data(shape, struct, fmt, param, factor, dim, k, rep):
    """Integer-valued datum of ``param`` in the representation ``rep`` (float64 / int64 entries, python
    float / int scalar) and the covariance it denotes according to the documentation."""
    import scipy.sparse as sp
    if shape == "scalar":
        D = (2 + k) * np.eye(dim, dtype=np.int64)
    elif shape in ("vector", "diagonal") or struct == "diagonal":
        D = np.diag(_int_vec(dim, k))
    elif factor in ("-", "sym"):
        D = _int_sym(dim, k)
    else:
        D = _int_tri(dim, k, lower=(param == "sqrtcov"))
    Df = D.astype(float)
    Sigma = {"cov": Df, "prec": np.linalg.inv(Df), "sqrtcov": Df @ Df.T, "sqrtprec": np.linalg.inv(Df.T @ Df)}[param]
    A = D.astype(np.float64 if rep == "float" else np.int64)
    if shape == "scalar":
        data = float(D[0, 0]) if rep == "float" else int(D[0, 0])
    elif shape == "vector":
        data = np.diag(A).copy()
    elif shape in ("diagonal", "dense"):
        data = A
    else:
        data = sp.csr_matrix(A)
        if data.dtype != A.dtype:
            raise AssertionError("harness self-check: sparse datum lost its dtype")
    return data, Sigma


def _modes(dim):
    """(path label, MIN_DIM_SPARSE value): natively (75) and with the threshold moved next to the dimension."""
    if dim <= 75:
        return [("dense", 75), ("sparse", dim - 1)]
    return [("sparse", 75), ("dense", dim)]


def _gauss_points(dim, k, mean, full_basis, ngen, c=1.0):
    """0, mean, basis, generic points in the coordinates standardised by the overall scale: mean + sqrt(c)(p - mean)."""
    mean = np.array(mean, float)
    pts = [np.zeros(dim), mean.copy()]
    idx = range(dim) if full_basis else sorted({0, 1, dim // 2, dim - 1})
    for i in idx:
        e = np.zeros(dim)
        e[i] = 1.0
        pts.append(e)
    for j in range(ngen):
        pts.append(refs.dyadic_vec(dim, k + 3 * j))
    if c != 1.0:
        pts = [mean + math.sqrt(c) * (p - mean) for p in pts]
    return pts


def _safe_exp(v):
    with np.errstate(all="ignore"):
        return float(np.exp(v))


def _eval_gauss(cell, res):
    import cuqi
    target, param, dim, k = (cell[x] for x in ("target", "param", "dim", "cat"))
    e = cell.get("scale", 0)
    isint = target == "int"
    stag = "scale=2^%d" % e if e else ""
    tally = _Tally(res, "Gaussian", "param=%s" % param + ("," + stag if stag else ""))
    tally.opbase["logpdf-finite"] = stag        # overflow is not tied to the parameterisation of the cell
    ctx = {"quad": set(), "ref": {}, "e": e, "c": 2.0 ** e}
    if isint:
        shapes = [("scalar", "", "diagonal"), ("vector", "", "diagonal"), ("diagonal", "", "diagonal"),
                  ("sparse", "csr", "diagonal")]
        if dim > 1:
            shapes += [("dense", "", "full"), ("sparse", "csr", "full")]
        ivec = _int_mean(dim, k)
        fvec = ivec.astype(float)
        mean_forms = [("scalar", "float", 1.0, np.ones(dim)), ("scalar", "int", 1, np.ones(dim)),
                      ("vector", "float", fvec, fvec), ("vector", "int", ivec, fvec),
                      ("list", "float", fvec.tolist(), fvec), ("list", "int", ivec.tolist(), fvec)]
        if cell.get("means") == "reduced":
            mean_forms = [m for m in mean_forms if m[1] == "int" or m[0] == "vector"]
        if cell.get("sreps"):     # facet scalar-like representation of the (integer-valued) broadcast scalar mean
            mean_forms += [("scalar:" + lab, "int", v, np.ones(dim)) for lab, v in _scalar_reps(1, True)[1:]]
        reps = ["float", "int"]
    else:
        struct = {"iso": "diagonal", "diag": "diagonal", "full": "full", "band": "banded"}[target]
        shapes = [(sh, fmt, struct) for sh, fmt in G_SHAPES[target]]
        mvec = refs.dyadic_vec(dim, k + 2, scale=0.125)
        mean_forms = [("zero", None, 0.0, np.zeros(dim)), ("scalar", None, 0.75, 0.75 * np.ones(dim)),
                      ("vector", None, mvec, mvec), ("list", None, mvec.tolist(), mvec), ("callable", None, None, mvec)]
        if cell.get("means") == "zero+vector":
            mean_forms = [m for m in mean_forms if m[0] in ("zero", "vector")]
        if cell.get("sreps"):     # facet scalar-like representation of the broadcast scalar mean: directly / value the callable mean is conditioned on
            mean_forms += [("scalar:" + lab, None, v, 0.75 * np.ones(dim)) for lab, v in _scalar_reps(0.75)[1:]]
            mean_forms += [("callable:" + lab, None, v, 0.75 * np.ones(dim)) for lab, v in _scalar_reps(0.75)]
        reps = [None]
        Sigma = ctx["c"] * _target_cov(target, dim, k)
    for shape, fmt, struct in shapes:
        label = shape if shape != "sparse" else "sparse-%s-%s" % (fmt, struct)
        passings = ["array"] + (["list"] if shape != "sparse" else []) + ["callable"] + (["none"] if param == "cov" else [])
        fullmat = struct in ("full", "banded") and shape in ("dense", "sparse")
        factors = ["sym", "upper"] if (param.startswith("sqrt") and fullmat) else ["-"]
        for path, minval in _modes(dim):
            old = cuqi.config.MIN_DIM_SPARSE
            cuqi.config.MIN_DIM_SPARSE = minval
            try:
                for factor in factors:
                    for rep in reps:
                        if isint:
                            data, Sigma = _int_data(shape, struct, fmt, param, factor, dim, k, rep)
                            skey = "%s/%s" % ("scalar" if shape == "scalar" else struct, factor)
                        else:
                            data = _gauss_data(target, shape, fmt, param, factor, dim, k, e)
                            skey = ""
                        # facet scalar-like representation of a scalar datum (directly / value the callable or None datum is conditioned on)
                        sreps = [lab for lab, _ in _scalar_reps(1)] if (shape == "scalar" and cell.get("sreps")) else [None]
                        for passing in passings:
                            for srep in (sreps if passing != "list" else sreps[:1]):
                                for mkind, mrep, marg, mref in mean_forms:
                                    if ":" in mkind and cell.get("sreps") != "cross" and (
                                            passing != "array" or (srep not in (None, "scalar") and mkind.split(":")[1] != srep)):
                                        continue      # quick: the scalar-like forms of the mean with directly passed data only; at most one of datum / mean in a non-basic scalar-like form, or both in the same
                                    if srep not in (None, "scalar") and cell.get("sreps") != "cross" and mkind not in ("scalar", "vector") and ":" not in mkind:
                                        continue      # quick: the scalar-like forms of the datum with the mean forms {scalar, vector} only
                                    fac = {"obtained": "direct", "origin": "direct", "data": label, "path": path, "pass": passing, "mean": mkind, "factor": factor}
                                    if isint:
                                        fac["rep"], fac["meanrep"] = rep, mrep
                                    if srep is not None:
                                        fac["srep"] = srep
                                    _gauss_config(cuqi, res, tally, cell, fac, shape, data, marg, mref, Sigma, skey, ctx)
            finally:
                cuqi.config.MIN_DIM_SPARSE = old
    tally.flush()


def _gauss_ref(ctx, cell, mkind, mref, Sigma, skey):
    """Evaluation points and reference values of N(mref, Sigma), once per (mean, covariance) of the cell."""
    key = (mkind, skey)
    if key not in ctx["ref"]:
        pts = _gauss_points(cell["dim"], cell["cat"], mref, cell["full_basis"], cell["ngeneric"], ctx["c"])
        ctx["ref"][key] = (pts, np.array([refs.gauss_logpdf(x, mref, Sigma) for x in pts]))
    return ctx["ref"][key]


def _gauss_config(cuqi, res, tally, cell, fac, shape, data, marg, mref, Sigma, skey, ctx):
    dim, k, param = cell["dim"], cell["cat"], cell["param"]
    passing, mkind = fac["pass"], fac["mean"]
    isint = "rep" in fac
    cond, kwargs = {}, {}
    implied = mkind in ("vector", "list")
    srep = fac.get("srep")

    def _rep(v):      # the scalar v in the scalar-like representation of this configuration
        return v if srep is None else dict(_scalar_reps(v, isinstance(v, int)))[srep]
    if passing == "array":
        kwargs[param] = _rep(data)
        implied = implied or shape != "scalar"
    elif passing == "list":
        kwargs[param] = data.tolist() if isinstance(data, np.ndarray) else [data]
        implied = implied or shape != "scalar"
    elif passing == "callable":
        if fac.get("rep") == "int":
            kwargs[param] = (lambda s, _d=data: np.multiply(s, _d))             # conditioned on the python int s = 1 later
            cond["s"] = _rep(1)
        else:
            kwargs[param] = (lambda s, _d=data: np.divide(s, 2.0) * _d)      # conditioned on s = 2 later
            cond["s"] = _rep(2.0)
    else:
        kwargs[param] = None
        cond[param] = _rep(data)
    if mkind.startswith("callable"):
        kwargs["mean"] = (lambda mu: mu)
        cond["mu"] = np.array(mref) if mkind == "callable" else marg
    else:
        kwargs["mean"] = marg
    if not implied or cond:
        kwargs["geometry"] = dim
    kwargs["name"] = "x"
    res.state("/".join(str(fac[x]) for x in ("data", "path", "factor", "pass", "srep", "mean", "rep", "meanrep") if x in fac))
    res.transitions += 1
    try:
        g0 = cuqi.distribution.Gaussian(**kwargs)
        g = g0(**cond) if cond else g0
        gdim = g.dim
    except Exception as e:
        res.refused += 1
        res.outcomes.add("construct-refused:%s:%s" % (fac["data"], type(e).__name__))
        return
    if gdim != dim:
        tally.fail("dim", fac, "distribution reports dim %r for a %d-dimensional specification" % (gdim, dim))
        return
    res.outcomes.add("store:%s:%s:%s" % (fac["data"], fac["path"], type(getattr(g, "_sqrtprec", None)).__name__))
    first = res.sample is None
    pts, refv = _gauss_ref(ctx, cell, (mkind, fac.get("meanrep")), mref, Sigma, skey)
    lp, ld, lu = [], [], []
    refused = None
    for x in pts:
        if refused is None:
            st, v = _call(res, g.logpdf, x)
            if st == "raised":
                refused = v
            elif st == "shape" and (fac.get("srep") == "1x1" or fac["mean"].endswith("1x1")):
                res.refused += 1      # the (1,1) array is not accepted as a scalar by this parameter: counts as a refusal
                res.outcomes.add("Gaussian:1x1-not-accepted")
                return
            elif st == "shape":
                tally.fail("logpdf-shape", fac, "logpdf of one point is not one number: %r" % (v,))
                return
            else:
                lp.append(v)
                st, v = _call(res, g.logd, x)
                ld.append(v if st == "ok" else np.nan)
        if refused is not None:
            st, v = _call(res, g._logupdf, x)
            lu.append(v if st == "ok" else np.nan)
    if refused is not None:
        # only the un-normalised log-density is offered: it may differ from the documented one by a constant
        res.refused += 1
        res.outcomes.add("logpdf-refused:%s:%s" % (fac["data"], type(refused).__name__))
        lu = np.array(lu)
        if len(lu) == len(pts) and np.all(np.isfinite(lu)):
            if _const(lu - refv):
                tally.ok("logupdf", fac)
            else:
                tally.fail("logupdf", fac, "un-normalised log-density minus documented log-density is not constant in x "
                           "(Gaussian given by %s)" % param, diff=lu - refv)
        return
    lp, ld = np.array(lp), np.array(ld)
    if first:
        res.sample = {"configuration": fac, "x": pts[-1], "logpdf": lp[-1], "logd": ld[-1], "reference": refv[-1]}
    if not np.all(np.isfinite(lp)):
        # the documented density is finite and positive everywhere: an infinite / nan value is an overflow of the
        # implementation, reported as a defect class of its own (not as a wrong value of this parameterisation)
        j = int(np.argmin(np.isfinite(lp)))
        tally.fail("logpdf-finite", fac, "Gaussian given by %s: logpdf = %r where the documented normalised density "
                   "gives the finite value %r" % (param, lp[j], refv[j]), x=pts[j], impl=lp[j], ref=refv[j])
        return
    tally.ok("logpdf-finite", fac)
    if _const(ld - lp) and np.all(np.isfinite(ld) | ~np.isfinite(lp)):
        tally.ok("logd-constant", fac)
    else:
        tally.fail("logd-constant", fac, "logd - logpdf is not constant over the points", diff=ld - lp)
    if close(lp, refv, 1e-9):
        tally.ok("logpdf", fac)
    else:
        j = int(np.argmax(np.abs(np.where(np.isfinite(lp), lp, 1e300) - refv)))
        note = ""
        if param == "sqrtcov" and isinstance(data, np.ndarray) and data.ndim == 2:
            R = data.astype(float)
            alt = np.array([refs.gauss_logpdf(x, mref, R.T @ R) for x in pts])
            if close(lp, alt, 1e-9):
                note = " (the values are those of cov = R^T R; the documentation defines sqrtcov by R R^T = cov)"
        tally.fail("logpdf", fac, "Gaussian given by %s: logpdf = %r, documented normalised density gives %r%s" %
                   (param, lp[j], refv[j], note), x=pts[j], impl=lp[j], ref=refv[j])
        return     # the remaining operations are functions of logpdf: one defect, one signature
    if cond:   # the unconditioned object evaluated with its conditioning variables by keyword
        st, v = _call(res, g0.logd, **dict(cond, x=pts[-1]))
        if st == "ok":
            if close(v, ld[-1], 1e-9):
                tally.ok("logd-conditional", fac)
            else:
                tally.fail("logd-conditional", fac, "logd(cond. variables, x) = %r differs from the conditioned "
                           "distribution's logd(x) = %r" % (v, ld[-1]))
        else:
            res.outcomes.add("logd-conditional-%s:%s" % (st, type(v).__name__))
    st, v = _call(res, g.pdf, pts[-1])
    if st == "ok":
        ex = _safe_exp(refv[-1])
        if close(v, ex, 1e-9, atol=1e-9 * max(ex, 1e-300)):
            tally.ok("pdf", fac)
        else:
            tally.fail("pdf", fac, "pdf %r != exp(reference log-density) %r" % (v, ex))
    if isint:
        # the evaluation point in integer representation (integer dtype array, list of python ints)
        xi = _int_mean(dim, k) + np.array([(i % 2) + 1 for i in range(dim)], dtype=np.int64)
        rx = refs.gauss_logpdf(xi.astype(float), mref, Sigma)
        for lab, xa in (("x-int-array", xi), ("x-int-list", xi.tolist())):
            st, v = _call(res, g.logpdf, xa)
            if st == "ok":
                if close(v, rx, 1e-9):
                    tally.ok("logpdf-" + lab, fac)
                else:
                    tally.fail("logpdf-" + lab, fac, "logpdf(%r) = %r, documented normalised density gives %r" % (xa, v, rx))
            else:
                res.outcomes.add("logpdf-%s-%s" % (lab, st))
    if dim <= 2:
        _gauss_cdf(res, tally, fac, g, mref, Sigma, k, ctx["c"], ctx["ref"], (mkind, skey))
    qkey = (fac["data"], fac["path"])
    if dim == 1 and ctx["e"] == 0 and not isint and qkey not in ctx["quad"] and mkind == "scalar":
        ctx["quad"].add(qkey)
        s = math.sqrt(Sigma[0, 0])
        total, err, n = _quad_total(lambda t: math.exp(_val(g.logpdf(np.array([t])))), -INF, INF,
                                    [mref[0] - s, mref[0], mref[0] + s])
        res.transitions += n
        if abs(total - 1.0) <= 1e-7 + 10 * err:
            tally.ok("normalisation", fac)
        else:
            tally.fail("normalisation", fac, "density integrates to %r" % total)
    if cell.get("origins") and (passing, mkind) in (_G_ORIGIN_CONFIGS_INT if isint else _G_ORIGIN_CONFIGS) and fac.get("rep") != "float":
        _gauss_origins(cuqi, res, tally, cell, fac, g0, g, cond, pts, refv, mref, Sigma, skey, ctx)


# provenance facet of the Gaussian: unconditional / two conditioning variables (scale factor s, mean mu); integer target: none / one (s)
_G_ORIGIN_CONFIGS = (("array", "vector"), ("callable", "callable"))
_G_ORIGIN_CONFIGS_INT = (("array", "vector"), ("callable", "vector"))      # (the integer target has no callable mean form)


def _gauss_origins(cuqi, res, tally, cell, fac, g0, g, cond, pts, refv, mref, Sigma, skey, ctx):
    """The same N(mean, Sigma) obtained as a copy / by reducing a joint distribution with one or two fixed
    variables (at once, stepwise) / as the joint's member: logpdf, logd, pdf at every point of the cell, cdf (dim<=2),
    in 1-D the integral of pdf for the object reduced from the joint with one fixed variable."""
    dim, k = cell["dim"], cell["cat"]
    for origin, obj, offset in _provenances(cuqi, res, g0, g, cond, k, _ORIGINS_LIGHT, dim):
        f2 = dict(fac, obtained=_obtained(origin), origin=origin)
        res.state("/".join(str(f2[x]) for x in ("data", "path", "factor", "pass", "mean", "rep", "meanrep", "origin") if x in f2))
        lp, ld, pv = [], [], []
        for x in pts:
            for out, f in ((lp, obj.logpdf), (ld, obj.logd), (pv, obj.pdf)):
                st, v = _call(res, f, x)
                out.append(v if st == "ok" else np.nan)
        lp, ld, pv = np.array(lp), np.array(ld), np.array(pv)
        res.outcomes.add("origin=%s:offset=%s" % (origin, "none" if offset is None else "nonzero" if abs(offset) > 1e-6 else "zero"))
        if not close(lp, refv, 1e-9):
            j = int(np.argmax(np.abs(np.where(np.isfinite(lp), lp, 1e300) - refv)))
            tally.fail("logpdf", f2, "Gaussian given by %s: logpdf = %r, documented normalised density gives %r" %
                       (cell["param"], lp[j], refv[j]), x=pts[j], impl=lp[j], ref=refv[j])
            continue
        tally.ok("logpdf", f2)
        if np.all(np.isfinite(ld)) and _const(ld - lp):
            tally.ok("logd-constant", f2)
        else:
            tally.fail("logd-constant", f2, "logd - logpdf is not constant over the points", diff=ld - lp)
        if offset is not None:
            if np.all(np.isfinite(ld)) and close(ld, lp + offset, 1e-9):
                tally.ok("logd-offset", f2)
            else:
                tally.fail("logd-offset", f2, "logd - logpdf = %r for a distribution obtained by fixing the other variables of a joint "
                           "distribution; the documented log-densities of the fixed variables sum to %r" % ((ld - lp)[0], offset))
        ex = np.array([_safe_exp(r) for r in refv])
        pdf_good = close(pv, ex, 1e-9, atol=1e-9 * max(float(np.max(ex)), 1e-300))
        if pdf_good:
            tally.ok("pdf", f2)
        else:
            j = int(np.argmax(np.abs(np.where(np.isfinite(pv), pv, 1e300) - ex)))
            tally.fail("pdf", f2, "pdf %r != exp(reference log-density) %r" % (pv[j], ex[j]), x=pts[j])
        if dim <= 2:
            _gauss_cdf(res, tally, f2, obj, mref, Sigma, k, ctx["c"], ctx["ref"], (fac["mean"], skey))
        qkey = ("pdf", fac["data"], fac["path"], fac["pass"], fac["mean"])
        if dim == 1 and origin == "joint1" and pdf_good and qkey not in ctx["quad"]:
            ctx["quad"].add(qkey)
            s = math.sqrt(Sigma[0, 0])
            try:
                total, err, n = _quad_total(lambda t: _val(obj.pdf(np.array([t]))), -INF, INF, [mref[0] - s, mref[0], mref[0] + s])
            except Exception as e:
                res.refused += 1
                res.outcomes.add("pdf-quad-refused:%s" % type(e).__name__)
                continue
            res.transitions += n
            if abs(total - 1.0) <= 1e-7 + 10 * err:
                tally.ok("pdf-normalisation", f2)
            else:
                tally.fail("pdf-normalisation", f2, "pdf integrates to %r" % total)


def _gauss_cdf(res, tally, fac, g, mean, Sigma, k, c, cache, ckey):
    """cache: reference values of the cell, keyed by (mean form, covariance) - the quadrature is done once."""
    from scipy.special import ndtr
    dim = len(mean)
    sc = math.sqrt(c)
    xs = [mean + sc * np.array([0.25, -0.5])[:dim], mean + sc * np.array([-1.0, 0.75])[:dim],
          mean + sc * (refs.dyadic_vec(dim, k) - mean)]
    for i, x in enumerate(xs):
        st, v = _call(res, g.cdf, x)
        if st != "ok":
            res.outcomes.add("cdf-%s:%s" % (st, (type(v).__name__ + ":" + str(v)[:60]) if st == "raised" else v))
            return
        rkey = ("cdf", ckey, i)
        if rkey not in cache:
            cache[rkey] = float(ndtr((x[0] - mean[0]) / math.sqrt(Sigma[0, 0]))) if dim == 1 else _bvn_cdf(x, mean, Sigma)
        ref = cache[rkey]
        if not close(v, ref, 1e-6, atol=1e-6):
            tally.fail("cdf", fac, "cdf(%s) = %r, integral of the documented density = %r" % (x.tolist(), v, ref))
            return
    tally.ok("cdf", fac)


def _bvn_cdf(x, mean, S):
    """P(X1<=x1, X2<=x2) by 1-D quadrature over the first coordinate (conditional normal of the second)."""
    from scipy.special import ndtr
    from scipy.integrate import quad
    s1 = math.sqrt(S[0, 0])
    c = S[0, 1] / S[0, 0]
    s2 = math.sqrt(S[1, 1] - S[0, 1] ** 2 / S[0, 0])

    def f(t):
        return math.exp(-0.5 * ((t - mean[0]) / s1) ** 2) / (s1 * math.sqrt(2 * math.pi)) * \
            float(ndtr((x[1] - mean[1] - c * (t - mean[0])) / s2))
    lo = mean[0] - 12 * s1
    if x[0] <= lo:
        return 0.0
    mids = [p for p in (mean[0] - 3 * s1, mean[0], mean[0] + 3 * s1) if lo < p < x[0]]
    edges = [lo] + mids + [x[0]]
    return float(sum(quad(f, a, b, epsabs=1e-13, epsrel=1e-12, limit=200)[0] for a, b in zip(edges[:-1], edges[1:])))


def _quad_total(f, lo, hi, breaks):
    """Integral of f over (lo, hi) split at the break points; returns (value, error estimate, #evaluations)."""
    from scipy.integrate import quad
    n = [0]

    def ff(t):
        n[0] += 1
        return f(t)
    edges = [lo] + sorted(b for b in set(breaks) if lo < b < hi) + [hi]
    tot = err = 0.0
    for a, b in zip(edges[:-1], edges[1:]):
        v, e = quad(ff, a, b, epsabs=1e-12, epsrel=1e-11, limit=400)
        tot += v
        err += e
    return tot, err, n[0]


# ========================================================================================
# univariate / iid families
# ========================================================================================
# parameter kinds: loc (any real), pos (>0), *-scalar (documented as scalar only), low/high (Uniform)
_SPEC = {
    "Normal": [("mean", "loc"), ("std", "pos")],
    "Laplace": [("location", "loc"), ("scale", "pos-scalar")],
    "SmoothedLaplace": [("location", "loc"), ("scale", "pos"), ("beta", "pos-scalar")],
    "Cauchy": [("location", "loc"), ("scale", "pos")],
    "Gamma": [("shape", "pos"), ("rate", "pos")],
    "InverseGamma": [("shape", "pos"), ("location", "loc"), ("scale", "pos")],
    "Beta": [("alpha", "pos"), ("beta", "pos")],
    "Uniform": [("low", "low"), ("high", "high")],
    "Lognormal": [("mean", "loc"), ("cov", "pos")],
    "ModifiedHalfNormal": [("alpha", "pos-scalar"), ("beta", "pos-scalar"), ("gamma", "loc-scalar")],
}
_PSETS = {
    "Normal": [(0.0, 1.0), (0.75, 0.5), (-1.25, 2.0)],
    "Laplace": [(0.0, 1.0), (0.5, 0.25), (-1.5, 2.0)],
    "SmoothedLaplace": [(0.0, 1.0, 1e-3), (0.5, 0.25, 0.25), (-1.5, 2.0, 0.0625)],
    "Cauchy": [(0.0, 1.0), (0.5, 0.25), (-1.5, 3.0)],
    "Gamma": [(1.0, 1.0), (2.5, 0.5), (1.5, 4.0), (5.0, 0.125)],
    "InverseGamma": [(2.0, 0.0, 1.0), (3.5, -0.5, 2.0), (1.5, 1.25, 0.5)],
    "Beta": [(2.0, 3.0), (1.5, 1.5), (1.0, 1.0), (4.5, 1.25)],
    "Uniform": [(0.0, 1.0), (-1.5, 0.5), (2.0, 6.0)],
    "Lognormal": [(0.0, 1.0), (0.5, 0.25), (-0.75, 2.0)],
    "ModifiedHalfNormal": [(2.0, 1.0, 0.5), (1.0, 0.5, -1.0), (3.5, 2.0, 1.5)],
}
# integer-valued parameter sets (representation facet: the same values as float64 / integer dtype / python int)
_PSETS_INT = {
    "Normal": (1, 2), "Laplace": (1, 2), "SmoothedLaplace": (1, 2, 1), "Cauchy": (1, 2), "Gamma": (2, 3),
    "InverseGamma": (3, 1, 2), "Beta": (2, 3), "Uniform": (-1, 2), "Lognormal": (1, 2), "ModifiedHalfNormal": (2, 1, 1),
}
_POSMUL = [1.0, 1.5, 0.5, 2.0]
_LOCOFF = [0.0, 0.75, -0.5, 1.25]


def _params(fam, ps, k, dim):
    """scalars dict and per-component vectors dict for the catalogue k."""
    sc, vec = {}, {}
    if ps == "int":     # integers in every catalogue
        for (name, kind), b in zip(_SPEC[fam], _PSETS_INT[fam]):
            if kind.startswith("pos"):
                s, v = b + k, [b + k + (i % 3) for i in range(dim)]
            elif kind.startswith("loc"):
                s, v = b - k, [b - k + [0, 1, -1, 2][i % 4] for i in range(dim)]
            elif kind == "low":
                s, v = b - k, [b - k - (i % 2) for i in range(dim)]
            else:  # high
                s, v = b + k, [b + k + (i % 3) for i in range(dim)]
            sc[name], vec[name] = float(s), np.array(v, dtype=float)
        return sc, vec
    if isinstance(ps, str) and ps.startswith("mag:"):
        sc0, vec0 = _params(fam, 0, k, dim)
        mag = ps[4:]
        for name, kind in _SPEC[fam]:
            if mag == "+2^20":
                off = 0.0 if kind.startswith("pos") else 2.0 ** 20
                sc[name], vec[name] = sc0[name] + off, vec0[name] + off
            else:
                m = 2.0 ** 10 if mag == "x2^10" else 2.0 ** -10
                sc[name], vec[name] = sc0[name] * m, vec0[name] * m
        return sc, vec
    base = _PSETS[fam][ps]
    for (name, kind), b in zip(_SPEC[fam], base):
        if kind.startswith("pos"):
            s = b * [1.0, 2.0, 0.5][k] if fam != "Beta" else b + [0.0, 0.5, 1.0][k]
            v = np.array([s * _POSMUL[i % 4] for i in range(dim)])
        elif kind.startswith("loc"):
            s = b + [0.0, 0.25, -0.5][k]
            v = np.array([s + _LOCOFF[i % 4] for i in range(dim)])
        elif kind == "low":
            s = b + [0.0, 0.25, -0.5][k]
            v = np.array([s - [0.0, 0.25, 0.5, 0.125][i % 4] for i in range(dim)])
        else:  # high
            s = b + [0.0, 0.25, -0.5][k] + [0.0, 0.5, 1.0][k]
            v = np.array([s + [0.0, 0.5, 0.25, 1.0][i % 4] for i in range(dim)])
        sc[name], vec[name] = float(s), v
    return sc, vec


def _gammaln(a):
    from scipy.special import gammaln
    return gammaln(a)


def _ref_logpdf(fam, P, x):
    """Sum of the documented component log-densities; P holds arrays broadcast to len(x)."""
    x = np.asarray(x, float)
    with np.errstate(all="ignore"):
        if fam == "Normal":
            c = -np.log(P["std"]) - 0.5 * LOG2PI - 0.5 * ((x - P["mean"]) / P["std"]) ** 2
        elif fam == "Laplace":
            c = -np.log(2 * P["scale"]) - np.abs(x - P["location"]) / P["scale"]
        elif fam == "SmoothedLaplace":
            c = -np.log(2 * P["scale"]) - np.sqrt((x - P["location"]) ** 2 + P["beta"]) / P["scale"]
        elif fam == "Cauchy":
            c = -np.log(np.pi * P["scale"] * (1 + ((x - P["location"]) / P["scale"]) ** 2))
        elif fam == "Gamma":
            a, b = P["shape"], P["rate"]
            c = np.where(x > 0, a * np.log(b) + (a - 1) * np.log(np.where(x > 0, x, 1.0)) - b * x - _gammaln(a), -INF)
        elif fam == "InverseGamma":
            a, l, s = P["shape"], P["location"], P["scale"]
            z = np.where(x > l, x - l, 1.0)
            c = np.where(x > l, a * np.log(s) - _gammaln(a) - (a + 1) * np.log(z) - s / z, -INF)
        elif fam == "Beta":
            a, b = P["alpha"], P["beta"]
            ins = (x > 0) & (x < 1)
            z = np.where(ins, x, 0.5)
            c = np.where(ins, (a - 1) * np.log(z) + (b - 1) * np.log(1 - z) + _gammaln(a + b) - _gammaln(a) - _gammaln(b), -INF)
        elif fam == "Uniform":
            ins = (x >= P["low"]) & (x <= P["high"])
            c = np.where(ins, -np.log(P["high"] - P["low"]), -INF)
        elif fam == "ModifiedHalfNormal":   # un-normalised
            z = np.where(x > 0, x, 1.0)
            c = np.where(x > 0, (P["alpha"] - 1) * np.log(z) - P["beta"] * x * x + P["gamma"] * x, -INF)
        else:
            raise ValueError(fam)
    return float(np.sum(c))


def _ref_lognormal(mean, Sigma, x):
    x = np.asarray(x, float)
    if np.any(x <= 0):
        return -INF
    return refs.gauss_logpdf(np.log(x), mean, Sigma) - float(np.sum(np.log(x)))


def _ref_cdf(fam, P, x):
    from scipy.special import ndtr, gammainc, gammaincc, betainc
    x = np.asarray(x, float)
    with np.errstate(all="ignore"):
        if fam == "Normal":
            c = ndtr((x - P["mean"]) / P["std"])
        elif fam == "Cauchy":
            c = 0.5 + np.arctan((x - P["location"]) / P["scale"]) / np.pi
        elif fam == "Gamma":
            c = np.where(x > 0, gammainc(P["shape"], P["rate"] * np.where(x > 0, x, 1.0)), 0.0)
        elif fam == "InverseGamma":
            z = np.where(x > P["location"], x - P["location"], 1.0)
            c = np.where(x > P["location"], gammaincc(P["shape"], P["scale"] / z), 0.0)
        elif fam == "Beta":
            c = np.where(x <= 0, 0.0, np.where(x >= 1, 1.0, betainc(P["alpha"], P["beta"], np.clip(x, 0, 1))))
        else:
            return None
    return float(np.prod(c))


def _support(fam, P, dim):
    lo, hi = np.full(dim, -INF), np.full(dim, INF)
    sc = np.ones(dim)
    ctr = np.zeros(dim)
    if fam == "Normal":
        ctr, sc = P["mean"], P["std"]
    elif fam in ("Laplace", "SmoothedLaplace", "Cauchy"):
        ctr, sc = P["location"], P["scale"]
    elif fam == "Gamma":
        lo, sc = np.zeros(dim), 1.0 / P["rate"]
    elif fam == "InverseGamma":
        lo, sc = P["location"].copy(), P["scale"]
    elif fam == "Beta":
        lo, hi = np.zeros(dim), np.ones(dim)
    elif fam == "Uniform":
        lo, hi = P["low"].copy(), P["high"].copy()
    elif fam in ("Lognormal", "ModifiedHalfNormal"):
        lo = np.zeros(dim)
    return lo, hi, np.broadcast_to(ctr, (dim,)).astype(float), np.broadcast_to(sc, (dim,)).astype(float)


_T = [-1.5, -0.25, 0.0, 0.5, 2.25]
_U = [0.125, 0.5, 1.0, 1.75, 4.0]
_W = [0.0625, 0.25, 0.5, 0.8125, 0.96875]


def _coord(lo, hi, ctr, sc, j):
    if np.isfinite(lo) and np.isfinite(hi):
        return lo + (hi - lo) * _W[j]
    if np.isfinite(lo):
        return lo + sc * _U[j]
    return ctr + sc * _T[j]


def _fam_points(fam, P, dim):
    lo, hi, ctr, sc = _support(fam, P, dim)
    inside, outside = [], []
    for j in range(5):
        inside.append(np.array([_coord(lo[i], hi[i], ctr[i], sc[i], (j + 2 * i) % 5) for i in range(dim)]))
    centre = np.array([_coord(lo[i], hi[i], ctr[i], sc[i], 2) for i in range(dim)])
    for i in range(dim):
        for j in (0, 4):
            p = centre.copy()
            p[i] = _coord(lo[i], hi[i], ctr[i], sc[i], j)
            inside.append(p)
    for i in range(dim):
        if np.isfinite(lo[i]):
            p = centre.copy()
            p[i] = lo[i] - 0.5
            outside.append(("below", p))
        if np.isfinite(hi[i]):
            p = centre.copy()
            p[i] = hi[i] + 0.5
            outside.append(("above", p))
    return inside, outside


def _far_points(fam, P, dim, Sigma=None):
    """Points of the support where the density is far outside the floating-point range (or next to a boundary)."""
    lo, hi, ctr, sc = _support(fam, P, dim)
    if fam == "Lognormal":
        sd = np.sqrt(np.diag(Sigma))
        m = np.broadcast_to(P["mean"], (dim,)).astype(float)
        return [("exp(mean+40 sd)", np.exp(m + 40.0 * sd)), ("exp(mean-40 sd)", np.exp(m - 40.0 * sd))]
    out = []
    if np.all(np.isfinite(lo)) and np.all(np.isfinite(hi)):
        out.append(("next to the lower bound", lo + (hi - lo) * 2.0 ** -40))
        out.append(("next to the upper bound", hi - (hi - lo) * 2.0 ** -40))
    elif np.all(np.isfinite(lo)):
        out.append(("lo + 2000 scale", lo + 2000.0 * sc))
        out.append(("lo + 2^-40 scale", lo + 2.0 ** -40 * sc))
    else:
        out.append(("centre + 60 scale", ctr + 60.0 * sc))
        out.append(("centre - 2000 scale", ctr - 2000.0 * sc))
    return out


def _fam_configs(fam, dl):
    """(pass, geometry kind, {vectorisable parameter: 'scalar'|'vector'}) for one dimension label."""
    vecs = [n for n, kind in _SPEC[fam] if not kind.endswith("scalar")]
    allsc = {n: "scalar" for n in vecs}
    allvec = {n: "vector" for n in vecs}
    first = dict(allsc, **{vecs[0]: "vector"}) if vecs else {}
    if fam == "ModifiedHalfNormal":
        return [("plain", g, {}) for g in ((["none"] if dl == "1" else ["int"]) if dl != "2x2" else ["image2d", "tuple2d"])]
    if dl == "2x2":
        out = [("plain", "image2d", allsc), ("plain", "tuple2d", allsc), ("plain", "image2d", allvec),
               ("callable", "image2d", first)]
    elif dl == "1":
        out = [("plain", "none", allsc), ("plain", "none", allvec), ("list", "none", allvec),
               ("callable", "int", first), ("none", "int", first)]
    else:
        out = [("plain", "int", allsc), ("plain", "none", allvec), ("list", "none", allvec), ("callable", "int", first),
               ("none", "int", first), ("plain", "none", first)]
        if len(vecs) >= 2:
            out.append(("plain", "none", dict(allvec, **{vecs[0]: "scalar"})))
    if fam == "Lognormal" and dl != "1":
        out += [("plain", "none", {"mean": "vector", "cov": "matrix"}), ("list", "none", {"mean": "vector", "cov": "matrix"})]
    return out


def _eval_family(cell, res):
    import cuqi
    fam, ps, k = cell["family"], cell["pset"], cell["cat"]
    ismag = isinstance(ps, str) and ps.startswith("mag:")
    tally = _Tally(res, fam, "")
    cls = getattr(cuqi.distribution, fam)
    # magnitude cells: the unscaled parameter set 0 is enumerated next to the scaled one inside the cell (control), so
    # that the facet is named in a signature exactly when it discriminates
    for dl, mag, pp in [(dl, mag, pp) for dl in F_DIMS for mag, pp in ([("1", 0), (ps[4:], ps)] if ismag else [(None, ps)])]:
        dim = 4 if dl == "2x2" else int(dl)
        sc, vec = _params(fam, pp, k, dim)
        modes = [("dense", None)] + ([("sparse", dim - 1)] if fam == "Lognormal" and dim > 1 else [])
        for passing, gkind, shapes in _fam_configs(fam, dl):
            for path, minval in modes:
                old = cuqi.config.MIN_DIM_SPARSE
                if minval is not None:
                    cuqi.config.MIN_DIM_SPARSE = minval
                try:
                    for rep in (["float", "int"] if ps == "int" else [None]):
                        fac = {"obtained": "direct", "origin": "direct"}
                        fac.update(shapes)
                        fac.update({"dim": "one" if dim == 1 else "multi", "pass": passing, "geometry": gkind})
                        if fam == "Lognormal":
                            fac["path"] = path
                        if rep:
                            fac["rep"] = rep
                        if mag:
                            fac["magnitude"] = mag
                        _family_config(cuqi, cls, res, tally, cell, fam, fac, shapes, dim, dl, sc, vec)
                finally:
                    cuqi.config.MIN_DIM_SPARSE = old
    tally.flush()
    if ismag:      # (the magnitude facet is crossed with dims x passing forms x points x origins, not with the two facets below)
        return
    _family_scalar_likes(cuqi, cls, res, cell, fam)
    _family_history(cuqi, cls, res, cell, fam)


# ---- facet "scalar-like representation of a parameter" --------------------------------------------------------
def _scalar_reps(v, integer=False):
    """Every scalar-like representation of the number v: python scalar, numpy scalar, 0-d array, one-element 1-D
    array, one-element list, (1,1) array - float-typed, or integer-typed for an integer-valued v.  All of them
    broadcast over a multi-dimensional geometry exactly like the python scalar."""
    if integer:
        i = int(v)
        if i != v:
            raise AssertionError("harness self-check: integer representation of %r" % (v,))
        return [("scalar", i), ("numpy-scalar", np.int64(i)), ("0-d", np.array(i)), ("1-array", np.array([i])),
                ("1-list", [i]), ("1x1", np.array([[i]]))]
    f = float(v)
    return [("scalar", f), ("numpy-scalar", np.float64(f)), ("0-d", np.array(f)), ("1-array", np.array([f])),
            ("1-list", [f]), ("1x1", np.array([[f]]))]


SL_DIMS = [1, 2, 3]


def _family_scalar_likes(cuqi, cls, res, cell, fam):
    """Every parameter of the family (one at a time, and all together) in every scalar-like representation x dim
    {1,2,3} x source of the dimension {geometry=dim with python scalars elsewhere, another parameter given as a
    full vector} x {passed directly, value a callable parameter is conditioned on, value a None parameter is
    conditioned on}.  Oracle: the documented density with the parameter broadcast to dim (a refusal is accepted)."""
    ps, k = cell["pset"], cell["cat"]
    isint = ps == "int"
    tally = _Tally(res, fam, "")
    names = [n for n, _ in _SPEC[fam]]
    vecs = [n for n, kind in _SPEC[fam] if not kind.endswith("scalar")]
    nreps = len(_scalar_reps(1, isint))
    for dim in SL_DIMS:
        sc, vec = _params(fam, ps, k, dim)
        cache = {}
        for p in names + (["all"] if len(names) > 1 else []):
            targets = names if p == "all" else [p]
            others = [q for q in vecs if q not in targets]
            for dimsrc in ["geometry"] + (["other-parameter"] if (others and dim > 1) else []):
                for via in (("direct", "callable", "none") if p != "all" else ("direct",)):
                    for ri in range(nreps):
                        kwargs, cond, eff = {"name": "x"}, {}, {}
                        for n in names:
                            kwargs[n], eff[n] = (int(sc[n]) if isint else float(sc[n])), np.full(dim, sc[n])
                        if dimsrc == "geometry":
                            kwargs["geometry"] = dim
                        else:
                            q = others[0]
                            kwargs[q] = vec[q].astype(np.int64) if isint else vec[q].copy()
                            eff[q] = vec[q]
                        label = None
                        for n in targets:
                            label, value = _scalar_reps(sc[n], isint)[ri]
                            if via == "direct":
                                kwargs[n] = value
                            elif via == "callable":
                                kwargs[n] = (lambda hp: hp)
                                cond["hp"] = value
                            else:
                                kwargs[n] = None
                                cond[n] = value
                        fac = {"obtained": "direct", "origin": "direct", "dim": "one" if dim == 1 else "multi", "srep": label,
                               "sparam": p, "via": via, "dimsrc": dimsrc}
                        tag = "scalar-like/%d/%s/%s/%s/%s" % (dim, p, label, via, dimsrc)
                        res.state(tag)
                        res.transitions += 1
                        try:
                            d0 = cls(**kwargs)
                            d = d0(**cond) if cond else d0
                            ddim = d.dim
                        except Exception as e:
                            res.refused += 1
                            res.outcomes.add("%s:construct-refused:srep=%s:via=%s:%s" % (fam, label, via, type(e).__name__))
                            continue
                        if ddim != dim:
                            res.refused += 1
                            res.outcomes.add("%s:dim-%s-instead-of-%s:srep=%s:%s" % (fam, ddim, dim, label, dimsrc))
                            continue
                        Sigma = np.diag(eff["cov"]) if fam == "Lognormal" else None
                        ckey = (dimsrc, others[0] if dimsrc != "geometry" else None)
                        if ckey not in cache:
                            cache[ckey] = (_fam_points(fam, eff, dim), {})
                        (inside, outside), rcache = cache[ckey]
                        R = {"inside": inside, "outside": outside, "cache": rcache, "eff": eff, "Sigma": Sigma, "dim": dim, "tag": tag,
                             "light": "srep=%s:via=%s" % (label, via)}
                        _family_observe(res, tally, cell, fam, fac, d0, d, cond, R, None)
    tally.flush()


# ---- facet "process history" ------------------------------------------------------------------------------------
def _family_history(cuqi, cls, res, cell, fam):
    """An object under test and a sibling of the SAME family and dimension but other hidden structure (other
    parameter values / scalar-broadcast vs per-component parameters / image vs 1-D geometry) are built in one
    process, in both orders; the first is used before the second is built; afterwards BOTH must show the documented
    density of their own parameters.  (Detection of state shared between objects must not depend on which cells
    happen to run in one worker process.)"""
    ps, k = cell["pset"], cell["cat"]
    isint = ps == "int"
    tally = _Tally(res, fam, "")
    vecs = [n for n, kind in _SPEC[fam] if not kind.endswith("scalar")]

    def spec(dim, dl, kk, form, gkind):
        sc, vec = _params(fam, ps, kk, dim)
        kwargs, eff = {"name": "x"}, {}
        for n, kind in _SPEC[fam]:
            kwargs[n], eff[n] = (int(sc[n]) if isint else float(sc[n])), np.full(dim, sc[n])
            if form == "vector" and n in vecs:
                kwargs[n] = vec[n].astype(np.int64) if isint else vec[n].copy()
                eff[n] = vec[n]
        if gkind == "int":
            kwargs["geometry"] = dim
        elif gkind == "image2d":
            kwargs["geometry"] = cuqi.geometry.Image2D((2, 2))
        elif gkind == "discrete":
            kwargs["geometry"] = cuqi.geometry.Discrete(dim)
        return kwargs, eff

    for dl in F_DIMS:
        dim = 4 if dl == "2x2" else int(dl)
        g0 = "image2d" if dl == "2x2" else "int"
        forms = ["scalar", "vector"] if vecs else ["scalar"]
        for form in forms:
            target = (k, form, g0)
            sibs = [("parameters", ((k + 1) % refs.K_CATALOGUES, form, g0)), ("geometry", (k, form, "int" if dl == "2x2" else "discrete"))]
            if vecs:
                sibs.append(("passing", (k, "vector" if form == "scalar" else "scalar", g0)))
            for skind, sib in sibs:
                for built in ("sibling-first", "target-first"):
                    pair = [("sibling", sib), ("target", target)] if built == "sibling-first" else [("target", target), ("sibling", sib)]
                    res.state("history/%s/%s/%s/%s" % (dl, form, skind, built))
                    objs = []
                    try:
                        for role, (kk, fm, gk) in pair:
                            res.transitions += 1
                            kwargs, eff = spec(dim, dl, kk, fm, gk)
                            d = cls(**kwargs)
                            if d.dim != dim:
                                raise ValueError("dimension %r" % (d.dim,))
                            inside, outside = _fam_points(fam, eff, dim)
                            res.transitions += 3
                            d.logpdf(inside[0]), d.logd(inside[1]), d.pdf(inside[0])       # use the object before the next one exists
                            objs.append((role, d, eff, inside, outside))
                    except Exception as e:
                        res.refused += 1
                        res.outcomes.add("%s:history-refused:%s:%s" % (fam, skind, type(e).__name__))
                        continue
                    for role, d, eff, inside, outside in reversed(objs):       # the object built last first, then the earlier one again
                        fac = {"obtained": "direct", "origin": "direct", "dim": "one" if dim == 1 else "multi", "sibling": skind,
                               "built": built, "object": role}
                        R = {"inside": inside, "outside": outside, "cache": {}, "eff": eff, "dim": dim, "tag": "history/%s" % skind,
                             "Sigma": np.diag(eff["cov"]) if fam == "Lognormal" else None, "light": "history:%s" % skind}
                        _family_observe(res, tally, cell, fam, fac, None, d, {}, R, None)
    tally.flush()


def _family_config(cuqi, cls, res, tally, cell, fam, fac, shapes, dim, dl, sc, vec):
    k = cell["cat"]
    passing, gkind = fac["pass"], fac["geometry"]
    vecs = [n for n, kind in _SPEC[fam] if not kind.endswith("scalar")]
    kwargs, cond, eff = {}, {}, {}
    asint = fac.get("rep") == "int"      # integer dtype arrays, lists of python ints, python int scalars

    def arr(a):
        return np.asarray(a).astype(np.int64) if asint else np.array(a, dtype=float)

    def num(v):
        return int(v) if asint else float(v)
    for name, kind in _SPEC[fam]:
        kwargs[name], eff[name] = num(sc[name]), np.full(dim, sc[name])
        if shapes.get(name) == "vector":
            kwargs[name] = arr(vec[name]).tolist() if passing == "list" else arr(vec[name])
            eff[name] = vec[name]
    if passing in ("callable", "none"):
        n = vecs[0]
        value = arr(vec[n]) if dim > 1 else num(vec[n][0])
        if passing == "callable":
            kwargs[n] = (lambda hp: hp)
            cond["hp"] = value
        else:
            kwargs[n] = None
            cond[n] = value
        kwargs["name"] = "x"
    Sigma = None
    if fam == "Lognormal":
        if shapes.get("cov") == "matrix":
            if cell["pset"] == "int":
                Sigma = (_int_sym(dim, k) * int(sc["cov"])).astype(float)
            else:
                Sigma = refs.spd_matrix(dim, k) * sc["cov"]
            kwargs["cov"] = arr(Sigma).tolist() if passing == "list" else arr(Sigma)
        else:
            Sigma = np.diag(eff["cov"])
    if gkind == "int":
        kwargs["geometry"] = dim
    elif gkind == "image2d":
        kwargs["geometry"] = cuqi.geometry.Image2D((2, 2))
    elif gkind == "tuple2d":
        kwargs["geometry"] = (2, 2)
    tag = "%s/%s/%s/%s" % (dl, passing, gkind, ",".join("%s=%s" % kv for kv in sorted(shapes.items())))
    if "rep" in fac:
        tag += "/" + fac["rep"]
    if "magnitude" in fac:
        tag += "/magnitude " + fac["magnitude"]
    kwargs["name"] = "x"
    res.state(tag + "/" + fac.get("path", ""))
    res.transitions += 1
    try:
        d0 = cls(**kwargs)
        d = d0(**cond) if cond else d0
        ddim = d.dim
    except Exception as e:
        res.refused += 1
        res.outcomes.add("%s:construct-refused:%s:%s" % (fam, tag, type(e).__name__))
        return
    if ddim != dim:
        # a scalar specification whose dimension the library does not take from the geometry: not comparable
        res.refused += 1
        res.outcomes.add("%s:dim-%s-instead-of-%s:%s" % (fam, ddim, dim, tag))
        return
    inside, outside = _fam_points(fam, eff, dim)
    R = {"inside": inside, "outside": outside, "cache": {}, "eff": eff, "Sigma": Sigma, "dim": dim, "tag": tag}
    if not _family_observe(res, tally, cell, fam, fac, d0, d, cond, R, None) or fac.get("rep") == "float" or fac.get("magnitude") == "1":
        return      # (the float64 control of the integer-valued parameter set / the unscaled control of a magnitude cell is examined as constructed only)
    # provenance facet: the same distribution obtained on the other documented routes (copies, reduction of a
    # joint distribution with 1 / 2 fixed variables at once and stepwise, member of a joint) - same observables
    for origin, obj, offset in _provenances(cuqi, res, d0, d, cond, k, _ORIGINS_FULL if cell.get("origins", "full") == "full" else _ORIGINS_LIGHT, dim):
        res.state(tag + "/" + fac.get("path", "") + "/" + origin)
        _family_observe(res, tally, cell, fam, dict(fac, obtained=_obtained(origin), origin=origin), None, obj, {}, R, offset)


def _family_observe(res, tally, cell, fam, fac, d0, d, cond, R, offset):
    """Compares the whole observable set of the object ``d`` with the documented density.  origin == direct: the
    complete point alphabet and input representations; other origins: 2 generic inside points + 2 outside points
    (the reference values are shared).  offset: documented value of logd - logpdf (None: only constancy is demanded).
    Returns True where logpdf could be evaluated and is right (the other origins are examined only there)."""
    eff, Sigma, dim, tag, cache = R["eff"], R["Sigma"], R["dim"], R["tag"], R["cache"]
    origin = fac["origin"]
    direct = origin == "direct"
    full = direct and not R.get("light")      # complete point alphabet / input representations / quadrature
    passing = fac.get("pass")
    inside = R["inside"] if full else R["inside"][:2]
    outside = R["outside"] if full else R["outside"][:2]

    def ref(x):
        key = ("lp", np.asarray(x, float).tobytes())
        if key not in cache:
            cache[key] = _ref_lognormal(eff["mean"], Sigma, x) if fam == "Lognormal" else _ref_logpdf(fam, eff, x)
        return cache[key]

    def refcdf(x):
        key = ("cdf", np.asarray(x, float).tobytes())
        if key not in cache:
            cache[key] = _ref_cdf(fam, eff, x)
        return cache[key]
    upto_const = fam == "ModifiedHalfNormal"
    lp, rf, ld = [], [], []
    for x in inside:
        st, v = _call(res, d.logpdf, x)
        if st == "raised":
            res.refused += 1
            res.outcomes.add("%s:logpdf-refused:%s:%s" % (fam, tag, type(v).__name__))
            return False
        if st == "shape":
            if fac.get("srep") == "1x1":      # the (1,1) array is not accepted as a scalar by this parameter: counts as a refusal
                res.refused += 1
                res.outcomes.add("%s:1x1-not-accepted:%s" % (fam, fac.get("sparam")))
                return False
            tally.fail("logpdf-shape", fac, "%s.logpdf of one point is not one number: %r" % (fam, v))
            return False
        lp.append(v)
        rf.append(ref(x))
        st, v = _call(res, d.logd, x)
        ld.append(v if st == "ok" else np.nan)
    lp, rf, ld = np.array(lp), np.array(rf), np.array(ld)
    if full:
        res.outcomes.add("%s:%s:%.9g" % (fam, tag, lp[0]))
    elif direct:
        res.outcomes.add("%s:%s:evaluated" % (fam, R["light"]))
    else:
        res.outcomes.add("%s:origin=%s:offset=%s" % (fam, origin, "none" if offset is None else "nonzero" if abs(offset) > 1e-6 else "zero"))
    if res.sample is None:
        res.sample = {"configuration": fac, "x": inside[0], "logpdf": lp[0], "logd": ld[0], "reference": rf[0]}
    if upto_const:
        good = _const(lp - rf) and bool(np.all(np.isfinite(lp)))
        msg = "logpdf - documented un-normalised log-density is not constant in x: %r" % (lp - rf)[:4].tolist()
    else:
        good = close(lp, rf, 1e-9)
        j = int(np.argmax(np.abs(np.where(np.isfinite(lp), lp, 1e300) - rf)))
        msg = "%s.logpdf = %r, documented density gives %r at x=%s" % (fam, lp[j], rf[j], inside[j].tolist())
    if good:
        tally.ok("logpdf", fac)
    else:
        tally.fail("logpdf", fac, msg, impl=lp, ref=rf, params={n: eff[n] for n in eff})
    if full and not upto_const:
        # far-tail points: the density itself under/overflows in floating point there, its logarithm does not
        for lab, x in _far_points(fam, eff, dim, Sigma):
            r = ref(x)
            if not np.isfinite(r):
                continue
            st, v = _call(res, d.logpdf, x)
            res.transitions += 1
            if st == "ok" and close(v, r, 1e-9):
                tally.ok("logpdf-far-tail", fac)
            elif st == "raised":
                res.refused += 1
                res.outcomes.add("%s:far-tail-refused:%s" % (fam, type(v).__name__))
            else:
                tally.fail("logpdf-far-tail", fac, "%s.logpdf = %r at the far-tail point %s (%s); the documented log-density is %r"
                           % (fam, v, np.asarray(x).tolist(), lab, r))
                break
    if np.all(np.isfinite(ld)):
        if _const(ld - lp):
            tally.ok("logd-constant", fac)
        else:
            tally.fail("logd-constant", fac, "logd - logpdf is not constant over the points", diff=ld - lp)
        if offset is not None:
            # reduction of a joint distribution: logd is the joint log-density as a function of the remaining
            # variable = documented log-density + log-densities of the fixed variables at their values
            if close(ld, lp + offset, 1e-9):
                tally.ok("logd-offset", fac)
            else:
                tally.fail("logd-offset", fac, "logd - logpdf = %r for a distribution obtained by fixing the other variables of a "
                           "joint distribution; the documented log-densities of the fixed variables sum to %r" % ((ld - lp)[0], offset))
    elif offset is not None:
        tally.fail("logd-offset", fac, "logd of a distribution obtained by fixing the other variables of a joint distribution "
                   "is not a finite number where logpdf is: %r" % ld[:3].tolist())
    if good and cond:
        st, v = _call(res, d0.logd, **dict(cond, x=inside[0]))
        if st == "ok":
            if close(v, ld[0], 1e-9):
                tally.ok("logd-conditional", fac)
            else:
                tally.fail("logd-conditional", fac, "logd(cond. variables, x) = %r, conditioned distribution gives %r" % (v, ld[0]))
        else:
            res.outcomes.add("%s:logd-conditional-%s" % (fam, st))
    if good and not upto_const:      # functions of logpdf: only examined where logpdf itself is right
        bad = None
        for i, x in enumerate(inside):
            st, v = _call(res, d.pdf, x)
            if st != "ok":
                res.outcomes.add("%s:pdf-%s" % (fam, st))
                bad = "skip"
                break
            e = _safe_exp(rf[i])
            if not close(v, e, 1e-9, atol=1e-9 * max(e, 1e-300)):
                bad = "pdf(%s) = %r != exp(documented log-density) %r" % (x.tolist(), v, e)
                break
        if bad is None:
            tally.ok("pdf", fac)
        elif bad != "skip":
            tally.fail("pdf", fac, bad)
        pdf_good = bad is None
        alts = [("x-list", inside[1].tolist())] if full else []
        if dim == 1 and full:
            alts += [("x-float", float(inside[1][0]))]
        for lab, xa in alts:
            st, v = _call(res, d.logpdf, xa)
            if st == "ok":
                if close(v, rf[1], 1e-9):
                    tally.ok("logpdf-" + lab, fac)
                else:
                    tally.fail("logpdf-" + lab, fac, "logpdf(%r) = %r, documented density gives %r" % (xa, v, rf[1]))
            else:
                res.outcomes.add("%s:%s:%s" % (fam, lab, st))
    if not upto_const:
        # vanishing outside the support
        for side, x in outside:
            st, v = _call(res, d.logpdf, x)
            if st == "ok":
                f2 = dict(fac, side=side)
                if v == -INF:
                    tally.ok("support", f2)
                else:
                    tally.fail("support", f2, "logpdf = %r at a point %s the support (x=%s)" % (v, side, x.tolist()))
                if not full and v == -INF:      # (a function of logpdf: examined where logpdf vanishes)
                    st, v = _call(res, d.pdf, x)
                    if st == "ok":
                        if v == 0.0:
                            tally.ok("pdf-support", f2)
                        else:
                            tally.fail("pdf-support", f2, "pdf = %r at a point %s the support (x=%s)" % (v, side, x.tolist()))
    # cdf
    if hasattr(d, "cdf") and refcdf(inside[0]) is not None:
        bad = None
        for x in inside:
            st, v = _call(res, d.cdf, x)
            if st != "ok":
                res.outcomes.add("%s:cdf-%s" % (fam, st))
                bad = "skip"
                break
            r = refcdf(x)
            if not close(v, r, 1e-9, atol=1e-10):
                bad = "cdf(%s) = %r, product of the marginal integrals of the documented density = %r" % (x.tolist(), v, r)
                break
        if bad is None:
            tally.ok("cdf", fac)
        elif bad != "skip":
            tally.fail("cdf", fac, bad)
        for side, x in outside:
            st, v = _call(res, d.cdf, x)
            if st == "ok":
                r = refcdf(x)
                f2 = dict(fac, side=side)
                if close(v, r, 1e-9, atol=1e-10):
                    tally.ok("cdf-outside", f2)
                else:
                    tally.fail("cdf-outside", f2, "cdf(%s) = %r with a coordinate %s the support; integral of the density = %r" %
                               (x.tolist(), v, side, r))
    # 1-D: quadrature (other origins: the object obtained by reducing a joint distribution with one fixed variable)
    if good and dim == 1 and passing in ("plain", "callable") and not upto_const and fam != "SmoothedLaplace" \
            and (full or origin == "joint1") and not str(cell["pset"]).startswith("mag:"):
        _family_quadrature(res, tally, fac, d, fam, eff, light=not direct, with_pdf=pdf_good)
    return bool(good)


def _family_quadrature(res, tally, fac, d, fam, eff, light=False, with_pdf=True):
    lo, hi, ctr, sc = _support(fam, eff, 1)
    lo, hi, ctr, sc = float(lo[0]), float(hi[0]), float(ctr[0]), float(sc[0])
    if np.isfinite(lo) and np.isfinite(hi):
        grid = [lo + (hi - lo) * w for w in _W]
    elif np.isfinite(lo):
        grid = [lo + sc * u for u in _U]
    else:
        grid = [ctr + sc * t for t in _T]

    def pdf(t):
        return math.exp(_val(d.logpdf(np.array([t]))))
    # integrate over the support only; the vanishing outside is decided by the support clause
    a = lo + 1e-300 if lo == 0 else (np.nextafter(lo, INF) if np.isfinite(lo) else lo)
    b = np.nextafter(hi, -INF) if np.isfinite(hi) else hi
    # the density the object itself reports (pdf) integrates to one (examined where pdf is right pointwise)
    if with_pdf:
        try:
            total, err, n = _quad_total(lambda t: _val(d.pdf(np.array([t]))), a, b, grid)
        except Exception as e:
            res.refused += 1
            res.outcomes.add("%s:pdf-quad-refused:%s" % (fam, type(e).__name__))
        else:
            res.transitions += n
            if abs(total - 1.0) <= 1e-7 + 10 * err:
                tally.ok("pdf-normalisation", fac)
            else:
                tally.fail("pdf-normalisation", fac, "pdf integrates to %r over the support (quadrature error %.1e)" % (total, err))
    if light:
        return
    try:
        total, err, n = _quad_total(pdf, a, b, grid)
    except Exception as e:
        res.refused += 1
        res.outcomes.add("%s:quad-refused:%s" % (fam, type(e).__name__))
        return
    res.transitions += n
    if abs(total - 1.0) <= 1e-7 + 10 * err:
        tally.ok("normalisation", fac)
    else:
        tally.fail("normalisation", fac, "exp(logpdf) integrates to %r over the support (quadrature error %.1e)" % (total, err))
    if hasattr(d, "cdf") and _ref_cdf(fam, eff, np.array([grid[0]])) is not None:
        pts = grid
        for a_, b_ in zip(pts[:-1], pts[1:]):
            try:
                inc = _val(d.cdf(np.array([b_]))) - _val(d.cdf(np.array([a_])))
            except Exception:
                res.refused += 1
                return
            res.transitions += 2
            integ, e, n = _quad_total(pdf, a_, b_, [])
            res.transitions += n
            if abs(inc - integ) > 1e-8 + 10 * e:
                tally.fail("cdf-increment", fac, "cdf(%r)-cdf(%r) = %r but the density integrates to %r on that interval" % (b_, a_, inc, integ))
                return
        tally.ok("cdf-increment", fac)


# ========================================================================================
# Markov random fields
# ========================================================================================
def _mrf_reference(fam, pd, N, bc, order):
    """Reference structure of one MRF configuration: difference matrix, (GMRF) precision structure matrix with its
    pseudo log-determinant and rank, tolerance."""
    D = refs.fd_ref(N, bc, order, pd)
    S = {"D": D, "tol": 1e-9 if (fam != "GMRF" or bc == "zero") else 1e-5}   # eps-regularised / iterative log-determinants of singular precisions: 1e-5 (DESIGN 1.4)
    if fam == "GMRF":
        dim = N if pd == 1 else N * N
        S["P"] = D.T @ D
        S["ld"], S["rank"], _ = refs.pseudo_logdet_rank(S["P"])
        if dim - S["rank"] != refs.expected_nullity(N, bc, order, pd):
            raise AssertionError("harness self-check: reference nullity for %s" % ((fam, pd, N, bc, order),))
    return S


def _mrf_ref_values(fam, S, hyper, lref, pts):
    """Documented log-density of the finite differences of x - location at the points."""
    rf = []
    for x in pts:
        r = x - lref
        if fam == "GMRF":
            rf.append(0.5 * (S["rank"] * (math.log(hyper) - LOG2PI) + S["ld"]) - 0.5 * hyper * float(r @ S["P"] @ r))
        elif fam == "LMRF":
            rf.append(float(np.sum(-np.log(2 * hyper) - np.abs(S["D"] @ r) / hyper)))
        else:
            rf.append(float(np.sum(np.log(hyper / np.pi) - np.log((S["D"] @ r) ** 2 + hyper ** 2))))
    return np.array(rf)


def _eval_mrf(cell, res):
    import cuqi
    fam, pd, N, k = (cell[x] for x in ("family", "pd", "N", "cat"))
    dim = N if pd == 1 else N * N
    tally = _Tally(res, fam, "")
    geoms = [("int", N)] if pd == 1 else [("image2d", None), ("tuple2d", (N, N))]
    lvec = refs.dyadic_vec(dim, k + 2, scale=0.125)
    ivec = _int_mean(dim, k)
    allforms = cell.get("intforms") == "all"
    # location forms: (label, argument, value the callable location is conditioned on, reference vector, base form?)
    loc_forms = [("zero", 0.0, None, np.zeros(dim), True), ("scalar", 0.5, None, 0.5 * np.ones(dim), True), ("vector", lvec, None, lvec, True),
                 ("list", lvec.tolist(), None, lvec, True), ("callable", None, np.array(lvec), lvec, True),
                 # representation facet: integer-valued location as python int / integer dtype array
                 ("int-scalar", 1, None, np.ones(dim), True), ("int-vector", ivec, None, ivec.astype(float), True)]
    # facet scalar-like representation: the broadcast scalar location in every scalar-like form, directly and as the
    # value the callable location is conditioned on
    for lab, v in _scalar_reps(0.5)[1:]:
        loc_forms.append(("scalar:" + lab, v, None, 0.5 * np.ones(dim), False))
    for lab, v in _scalar_reps(0.5):
        loc_forms.append(("callable:" + lab, None, v, 0.5 * np.ones(dim), False))
    if allforms:
        for lab, v in _scalar_reps(1, True)[1:]:
            loc_forms.append(("int-scalar:" + lab, v, None, np.ones(dim), False))
    hyper_f = [2.0, 0.5, 3.0][k] if fam == "GMRF" else [0.5, 2.0, 0.25][k]
    hyper_i = 2 + k                                   # integer-valued hyper-parameter (python int / integer dtype)
    # hyper-parameter forms: (label, argument, value the callable is conditioned on, value, base form?)
    hyp_forms = [("float", hyper_f, None, hyper_f, True)]
    if fam == "GMRF":
        hyp_forms.append(("array1", np.array([hyper_f]), None, hyper_f, True))
    hyp_forms += [("callable", None, hyper_f, hyper_f, True), ("int", int(hyper_i), None, float(hyper_i), True)]
    if fam == "GMRF" and allforms:
        hyp_forms.append(("int-array1", np.array([hyper_i]), None, float(hyper_i), True))
    for lab, v in _scalar_reps(hyper_f)[1:]:
        if not (fam == "GMRF" and lab == "1-array"):
            hyp_forms.append(("scalar:" + lab, v, None, hyper_f, False))
    for lab, v in _scalar_reps(hyper_f)[1:]:
        hyp_forms.append(("callable:" + lab, None, v, hyper_f, False))
    if allforms:
        for lab, v in _scalar_reps(hyper_i, True)[1:]:
            if not (fam == "GMRF" and lab == "1-array"):
                hyp_forms.append(("int:" + lab, v, None, float(hyper_i), False))
    pts = [np.zeros(dim)] + [np.eye(dim)[:, i] for i in range(dim)] + [refs.dyadic_vec(dim, k), refs.dyadic_vec(dim, k + 3)]
    cls = getattr(cuqi.distribution, fam)
    locname = "mean" if fam == "GMRF" else "location"
    hypname = "prec" if fam == "GMRF" else "scale"
    combos = [(bc, order) for bc, order in MRF_COMBOS if (fam == "GMRF" or order == 1) and not (bc == "neumann" and N - order < 1)]
    for bc, order in combos:
        S = _mrf_reference(fam, pd, N, bc, order)
        tol = S["tol"]
        for gname, geom in geoms:
            for lkind, larg, lcond, lref, lbase in loc_forms:
                rfs = {}
                for hform, harg, hcond, hyper, hbase in hyp_forms:
                    # quick: at most one of the two parameters in a non-base scalar-like form, or both in the same one
                    if not allforms and not (lbase and hbase):
                        if not (lbase or hbase):
                            if lkind.split(":")[-1] != hform.split(":")[-1]:
                                continue
                        elif (lbase and lkind not in ("vector", "callable")) or (hbase and hform not in ("float", "callable")):
                            continue      # quick: a non-basic scalar-like form of one parameter with the other as {vector, callable} resp. {float, callable}
                    if hyper not in rfs:
                        rfs[hyper] = _mrf_ref_values(fam, S, hyper, lref, pts)
                    rf = rfs[hyper]
                    fac = {"obtained": "direct", "origin": "direct", "bc": bc, "order": str(order), "loc": lkind, "hyper": hform, "geometry": gname}
                    kwargs = {"bc_type": bc, "geometry": geom if geom is not None else cuqi.geometry.Image2D((N, N))}
                    if fam == "GMRF":
                        kwargs["order"] = order
                    cond = {}
                    if lcond is not None:
                        kwargs[locname] = (lambda mu: mu)
                        cond["mu"] = lcond
                    else:
                        kwargs[locname] = larg
                    if hcond is not None:
                        kwargs[hypname] = (lambda d: d)
                        cond["d"] = hcond
                    else:
                        kwargs[hypname] = harg
                    kwargs["name"] = "x"
                    res.state("%s/%d/%s/%s/%s" % (bc, order, gname, lkind, hform))
                    res.transitions += 1
                    try:
                        m0 = cls(**kwargs)
                        m = m0(**cond) if cond else m0
                    except Exception as e:
                        res.refused += 1
                        res.outcomes.add("%s:construct-refused:%s:%s" % (fam, bc, type(e).__name__))
                        continue
                    good = _mrf_config(res, tally, fac, fam, m0, m, cond, pts, rf, tol, locname)
                    if good and (lkind, hform) in _MRF_ORIGIN_CONFIGS:
                        # provenance facet: unconditional / hyper-parameter fixed in a joint / location and hyper-parameter
                        for origin, obj, offset in _provenances(cuqi, res, m0, m, cond, k, _ORIGINS_LIGHT, dim):
                            res.state("%s/%d/%s/%s/%s/%s" % (bc, order, gname, lkind, hform, origin))
                            res.outcomes.add("%s:origin=%s:offset=%s" % (fam, origin, "none" if offset is None else "nonzero" if abs(offset) > 1e-6 else "zero"))
                            _mrf_config(res, tally, dict(fac, obtained=_obtained(origin), origin=origin), fam, None, obj, {}, pts, rf, tol, locname, offset)
    tally.flush()
    _mrf_history(cuqi, cls, res, cell, combos, lvec, hyper_f)


def _mrf_history(cuqi, cls, res, cell, combos, lvec, hyper_f):
    """Facet process history: the object under test and a sibling of the SAME family and dimension but other hidden
    structure (1-D on N*N nodes <-> 2-D on N x N, other boundary condition, other order, other hyper-parameter, other
    location) are built in one process, in both orders; the first is used before the second is built; afterwards
    BOTH must show the documented density of their own configuration at every point."""
    fam, pd, N, k = (cell[x] for x in ("family", "pd", "N", "cat"))
    dim = N if pd == 1 else N * N
    tally = _Tally(res, fam, "")
    locname = "mean" if fam == "GMRF" else "location"
    hypname = "prec" if fam == "GMRF" else "scale"
    pts = [np.zeros(dim)] + [np.eye(dim)[:, i] for i in range(dim)] + [refs.dyadic_vec(dim, k), refs.dyadic_vec(dim, k + 3)]
    root = int(round(math.sqrt(N)))
    structs = {}

    def build(conf):
        pd_, N_, bc, order, loc, hyper = conf
        kwargs = {"bc_type": bc, "geometry": N_ if pd_ == 1 else cuqi.geometry.Image2D((N_, N_)), locname: loc.copy(), hypname: hyper}
        if fam == "GMRF":
            kwargs["order"] = order
        m = cls(**kwargs)
        if m.dim != dim:
            raise ValueError("dimension %r" % (m.dim,))
        return m

    def reference(conf):
        pd_, N_, bc, order, loc, hyper = conf
        if (pd_, N_, bc, order) not in structs:
            structs[(pd_, N_, bc, order)] = _mrf_reference(fam, pd_, N_, bc, order)
        S = structs[(pd_, N_, bc, order)]
        return _mrf_ref_values(fam, S, hyper, loc, pts), S["tol"]

    valid = lambda pd_, N_, bc, order: (fam == "GMRF" or order == 1) and (bc, order) in MRF_COMBOS and not (bc == "neumann" and N_ - order < 1)
    for bc, order in combos:
        target = (pd, N, bc, order, lvec, hyper_f)
        sibs = []
        if pd == 2:
            sibs.append(("physical-dim", (1, N * N, bc, order, lvec, hyper_f)))
        elif root * root == N and root >= 2:
            sibs.append(("physical-dim", (2, root, bc, order, lvec, hyper_f)))
        for bc2 in ("zero", "neumann", "periodic"):
            if bc2 != bc and valid(pd, N, bc2, order):
                sibs.append(("bc", (pd, N, bc2, order, lvec, hyper_f)))
        for order2 in (0, 1, 2):
            if fam == "GMRF" and order2 != order and valid(pd, N, bc, order2):
                sibs.append(("order", (pd, N, bc, order2, lvec, hyper_f)))
        sibs.append(("hyper-parameter", (pd, N, bc, order, lvec, 2.0 * hyper_f)))
        sibs.append(("location", (pd, N, bc, order, np.zeros(dim), hyper_f)))
        sibs = [(kind, conf) for kind, conf in sibs if valid(*conf[:4])]
        for skind, sib in sibs:
            for built in ("sibling-first", "target-first"):
                pair = [("sibling", sib), ("target", target)] if built == "sibling-first" else [("target", target), ("sibling", sib)]
                res.state("history/%s/%d/%s/%s" % (bc, order, skind, built))
                fac = {"bc": bc, "order": str(order), "sibling": skind, "built": built}
                objs = []
                try:
                    for role, conf in pair:
                        res.transitions += 3
                        m = build(conf)
                        m.logpdf(pts[-1]), m.logd(pts[-2])        # use the object before the next one exists
                        objs.append((role, conf, m))
                except Exception as e:
                    res.refused += 1
                    res.outcomes.add("%s:history-refused:%s:%s" % (fam, skind, type(e).__name__))
                    continue
                bad = None
                for role, conf, m in reversed(objs):       # the object built last first, then the earlier one again
                    rf, tol = reference(conf)
                    lp = []
                    for x in pts:
                        st, v = _call(res, m.logpdf, x)
                        lp.append(v if st == "ok" else np.nan)
                    lp = np.array(lp)
                    if not close(lp, rf, tol):
                        j = int(np.argmax(np.abs(np.where(np.isfinite(lp), lp, 1e300) - rf)))
                        bad = ("%s built %s a %s with another %s in the same process: logpdf = %r, documented density of the differences "
                               "of x-%s gives %r" % (fam, "after" if m is objs[-1][2] else "before", fam, skind, lp[j], locname, rf[j]), role, pts[j])
                        break
                if bad is None:
                    tally.ok("logpdf-with-sibling", fac)
                else:
                    tally.fail("logpdf-with-sibling", fac, bad[0], wrong_object=bad[1], x=bad[2])
    tally.flush()


_MRF_ORIGIN_CONFIGS = (("vector", "float"), ("vector", "callable"), ("callable", "callable"))


def _mrf_config(res, tally, fac, fam, m0, m, cond, pts, rf, tol, locname, offset=None):
    """offset: documented logd - logpdf of an object obtained by reducing a joint distribution (None: constancy only).
    Returns True when logpdf could be evaluated and equals the reference."""
    direct = fac["origin"] == "direct"
    lp, ld = [], []
    for x in pts:
        st, v = _call(res, m.logpdf, x)
        if st != "ok":
            if st == "shape" and (fac.get("loc", "").endswith("1x1") or fac.get("hyper", "").endswith("1x1")):
                res.refused += 1      # the (1,1) array is not accepted as a scalar by this parameter: counts as a refusal
                res.outcomes.add("%s:1x1-not-accepted" % fam)
            elif st == "shape":
                tally.fail("logpdf-shape", fac, "logpdf of one point is not one number: %r" % (v,))
            else:
                res.refused += 1
                res.outcomes.add("%s:logpdf-refused:%s" % (fam, type(v).__name__))
            return False
        lp.append(v)
        st, v = _call(res, m.logd, x)
        ld.append(v if st == "ok" else np.nan)
    lp, ld = np.array(lp), np.array(ld)
    if direct:
        res.outcomes.add("%s:%s:%s:%.9g" % (fam, fac["bc"], fac["order"], lp[-1]))
    if np.all(np.isfinite(ld)):
        if _const(ld - lp):
            tally.ok("logd-constant", fac)
        else:
            tally.fail("logd-constant", fac, "logd - logpdf is not constant over the points")
        if offset is not None:
            if close(ld, lp + offset, 1e-9):
                tally.ok("logd-offset", fac)
            else:
                tally.fail("logd-offset", fac, "logd - logpdf = %r for a distribution obtained by fixing the other variables of a joint "
                           "distribution; the documented log-densities of the fixed variables sum to %r" % ((ld - lp)[0], offset))
    elif offset is not None:
        tally.fail("logd-offset", fac, "logd of a distribution obtained by fixing the other variables of a joint distribution is "
                   "not a finite number where logpdf is: %r" % ld[:3].tolist())
    if close(lp, rf, tol):
        tally.ok("logpdf", fac)
    else:
        j = int(np.argmax(np.abs(np.where(np.isfinite(lp), lp, 1e300) - rf)))
        tally.fail("logpdf", fac, "%s.logpdf = %r, documented density of the differences of x-%s gives %r" %
                   (fam, lp[j], locname, rf[j]), x=pts[j], impl=lp[j], ref=rf[j])
        return False
    for x, r in ([(pts[-1], rf[-1])] if direct else list(zip(pts, rf))[-3:]):
        st, v = _call(res, m.pdf, x)
        if st == "ok":
            e = _safe_exp(r)
            if close(v, e, tol, atol=tol * max(e, 1e-300)):
                tally.ok("pdf", fac)
            else:
                tally.fail("pdf", fac, "pdf %r != exp(documented log-density) %r" % (v, e))
                break
    if cond:
        st, v = _call(res, m0.logd, **dict(cond, x=pts[-1]))
        if st == "ok":
            if close(v, ld[-1], 1e-9):
                tally.ok("logd-conditional", fac)
            else:
                tally.fail("logd-conditional", fac, "logd(cond. variables, x) = %r, conditioned distribution gives %r" % (v, ld[-1]))
    return True


# ========================================================================================
# user-defined
# ========================================================================================
def _eval_user(cell, res):
    import cuqi
    k = cell["cat"]
    tally = _Tally(res, "UserDefinedDistribution", "")
    if cell["dim"] == "gallery":
        d = cuqi.distribution.DistributionGallery("BivariateGaussian")
        sig = np.diag(np.linspace(0.5, 1, 2))
        S = sig @ np.array([[1.0, 0.9], [0.9, 1.0]]) @ sig
        pts = [np.zeros(2), np.array([1.0, 0.0]), np.array([0.0, 1.0]), refs.dyadic_vec(2, k)]
        lp = []
        for x in pts:
            st, v = _call(res, d.logpdf, x)
            lp.append(v if st == "ok" else np.nan)
        rf = [refs.gauss_logpdf(x, np.zeros(2), S) for x in pts]
        fac = {"which": "BivariateGaussian"}
        res.state("gallery")
        if close(lp, rf, 1e-9):
            tally.ok("gallery-logpdf", fac)
        else:
            tally.fail("gallery-logpdf", fac, "gallery BivariateGaussian logpdf %r != %r" % (lp, rf))
        tally.flush()
        return
    dim = cell["dim"]
    w = np.array([1.0, 0.5, 2.0][:dim]) * [1.0, 2.0, 0.5][k]
    mu = refs.dyadic_vec(dim, k, scale=0.125)

    def f(x):   # a normalised density written by the "user": independent logistic components
        z = (np.asarray(x, float) - mu) / w
        return float(np.sum(-z - 2 * np.log1p(np.exp(-z)) - np.log(w)))
    d = cuqi.distribution.UserDefinedDistribution(dim=dim, logpdf_func=f)
    pts = [np.zeros(dim)] + [np.eye(dim)[:, i] for i in range(dim)] + [refs.dyadic_vec(dim, k + 1)]
    fac = {"form": "logpdf_func"}
    res.state("user")
    ok1 = ok2 = ok3 = True
    diffs = []
    for x in pts:
        st, v = _call(res, d.logpdf, x)
        ok1 &= (st == "ok" and close(v, f(x), 1e-12))
        st, v2 = _call(res, d.logd, x)
        if st == "ok":
            diffs.append(v2 - f(x))
        st, v3 = _call(res, d.pdf, x)
        ok3 &= (st == "ok" and close(v3, math.exp(f(x)), 1e-12))
    ok2 = _const(diffs)
    for op, good in (("logpdf", ok1), ("logd-constant", ok2), ("pdf", ok3)):
        if good:
            tally.ok(op, fac)
        else:
            tally.fail(op, fac, "user-defined density is not passed through unchanged by %s" % op)
    if d.dim != dim:
        tally.fail("dim", fac, "dim %r != %d" % (d.dim, dim))
    res.outcomes.add("user:%d:%.9g" % (dim, f(pts[-1])))
    tally.flush()
