"""Shared catalogue of model graphs ("programs") for C01 / C11.

Every graph provides
  * ``build(k)``   -> Bundle of FRESH library objects (joint, factors, models) for value catalogue k;
                      every factor is created with an explicit ``name=`` (CUQIpy otherwise infers names
                      from Python variable names found on the call stack);
  * ``values(k)``  -> one complete admissible assignment {variable: value};
  * ``ref_factors(k, vals)`` -> {factor name: reference log-density of that factor at the assignment},
                      written from scipy.stats / explicit formulas only (never the library's logd);
  * ``ref_joint(k, vals)`` = sum of the reference factors.

``free`` are the variables of the joint (in the order the factors are passed), ``data0`` are variables
that are already observed when the joint is assembled (G7: joint built from a ready Likelihood).

IMPORTANT (harness hygiene): library objects are only ever held in containers or in local variables
whose names start with ``obj``/``_`` -- these prefixes are ignored by the library's stack-walking name
inference, so the harness' own variable names can never leak into a model.
"""
import math
import numpy as np
import scipy.stats as sps
from vfw import refs


# ----------------------------------------------------------------------------------------
# reference log-densities (textbook formulas)
# ----------------------------------------------------------------------------------------
def lg_gauss(x, mean, cov):
    return refs.gauss_logpdf(x, mean, cov)


def lg_gauss_prec(x, mean, P):
    """Gaussian given by a dense SPD precision matrix P."""
    x = np.atleast_1d(np.asarray(x, float))
    r = x - np.broadcast_to(np.asarray(mean, float), x.shape)
    sign, ld = np.linalg.slogdet(P)
    return float(0.5 * ld - 0.5 * x.size * refs.LOG2PI - 0.5 * r @ P @ r)


def lg_gamma(x, shape, rate):
    return float(np.sum(sps.gamma.logpdf(x, a=shape, scale=1.0 / rate)))


def lg_beta(x, a, b):
    return float(np.sum(sps.beta.logpdf(x, a, b)))


def lg_invgamma(x, shape, loc, scale):
    return float(np.sum(sps.invgamma.logpdf(x, a=shape, loc=loc, scale=scale)))


def lg_laplace(x, loc, scale):
    return float(np.sum(sps.laplace.logpdf(x, loc=loc, scale=scale)))


def lg_cauchy(x, loc, scale):
    return float(np.sum(sps.cauchy.logpdf(x, loc=loc, scale=scale)))


def lg_uniform(x, low, high):
    return float(np.sum(sps.uniform.logpdf(x, loc=low, scale=high - low)))


def lg_lognormal(x, mean, cov):
    x = np.atleast_1d(np.asarray(x, float))
    return refs.gauss_logpdf(np.log(x), mean, cov) - float(np.sum(np.log(x)))


def lg_lmrf(x, loc, scale, D):
    Dx = D @ (np.asarray(x, float) - loc)
    return float(np.sum(-math.log(2 * scale) - np.abs(Dx) / scale))


# ----------------------------------------------------------------------------------------
class Bundle:
    """Fresh library objects of one graph."""

    def __init__(self, joint, factors, models=None, extra=None):
        self.joint = joint
        self.factors = factors        # name -> Density (the objects passed to the joint)
        self.models = models or {}
        self.extra = extra or {}


class Graph:
    gid = "G?"
    title = ""
    free = []        # variables of the joint, in factor order
    data0 = []       # variables observed before the joint is assembled
    dims = {}        # variable -> dimension
    parents = {}     # factor name -> names it depends on (excluding itself)

    def build(self, k):
        raise NotImplementedError

    def values(self, k):
        raise NotImplementedError

    def ref_factors(self, k, vals):
        raise NotImplementedError

    def ref_joint(self, k, vals):
        return float(sum(self.ref_factors(k, vals).values()))


def _cuqi():
    import cuqi
    return cuqi


H3 = ([1.5, 0.75, 2.5], [2.0, 1.25, 0.5], [0.5, 1.75, 1.25])   # positive hyper-parameter values per catalogue


# ----------------------------------------------------------------------------------------
class G1(Graph):
    gid = "G1"
    title = "y~N(Ax,1/s I), x~N(m0,1/d I), d,s~Gamma (LinearModel; cov callables)"
    free = ["y", "x", "d", "s"]
    dims = {"y": 2, "x": 3, "d": 1, "s": 1}
    parents = {"y": ["x", "s"], "x": ["d"], "d": [], "s": []}

    def par(self, k):
        return dict(A=refs.full_matrix(2, 3, k), m0=refs.dyadic_vec(3, k + 1, scale=0.125),
                    gd=([2.0, 3.0, 1.5][k], [1.5, 0.5, 2.0][k]), gs=([3.0, 2.5, 4.0][k], [0.5, 1.0, 2.0][k]))

    def build(self, k):
        cuqi = _cuqi()
        p = self.par(k)
        D = cuqi.distribution
        _m = cuqi.model.LinearModel(p["A"])
        f = {}
        f["y"] = D.Gaussian(mean=_m, cov=lambda s: 1.0 / s, name="y")
        f["x"] = D.Gaussian(mean=p["m0"], cov=lambda d: 1.0 / d, name="x")
        f["d"] = D.Gamma(p["gd"][0], p["gd"][1], name="d")
        f["s"] = D.Gamma(p["gs"][0], p["gs"][1], name="s")
        return Bundle(D.JointDistribution(f["y"], f["x"], f["d"], f["s"]), f, {"A": _m})

    def values(self, k):
        return {"y": refs.dyadic_vec(2, k + 2), "x": refs.dyadic_vec(3, k + 3), "d": H3[0][k], "s": H3[1][k]}

    def ref_factors(self, k, v):
        p = self.par(k)
        return {"y": lg_gauss(v["y"], p["A"] @ v["x"], 1.0 / v["s"]),
                "x": lg_gauss(v["x"], p["m0"], 1.0 / v["d"]),
                "d": lg_gamma(v["d"], *p["gd"]), "s": lg_gamma(v["s"], *p["gs"])}


class G2(Graph):
    gid = "G2"
    title = "GMRF prior prec=lambda d:d (order 1, zero bc), y~N(Ax, prec=lambda s:s); factor order d,s,x,y"
    free = ["d", "s", "x", "y"]
    dims = {"d": 1, "s": 1, "x": 4, "y": 3}
    parents = {"y": ["x", "s"], "x": ["d"], "d": [], "s": []}

    def par(self, k):
        D1 = refs.fd1_1d(4, "zero")
        return dict(A=refs.full_matrix(3, 4, k), m0=refs.dyadic_vec(4, k + 2, scale=0.125), P=D1.T @ D1,
                    gd=([1.5, 2.0, 3.0][k], [0.5, 1.5, 1.0][k]), gs=([2.0, 3.5, 1.25][k], [1.0, 2.0, 0.5][k]))

    def build(self, k):
        cuqi = _cuqi()
        p = self.par(k)
        D = cuqi.distribution
        _m = cuqi.model.LinearModel(p["A"])
        f = {}
        f["d"] = D.Gamma(p["gd"][0], p["gd"][1], name="d")
        f["s"] = D.Gamma(p["gs"][0], p["gs"][1], name="s")
        f["x"] = D.GMRF(p["m0"], lambda d: d, bc_type="zero", order=1, geometry=4, name="x")
        f["y"] = D.Gaussian(mean=_m, prec=lambda s: s, name="y")
        return Bundle(D.JointDistribution(f["d"], f["s"], f["x"], f["y"]), f, {"A": _m})

    def values(self, k):
        return {"y": refs.dyadic_vec(3, k + 4), "x": refs.dyadic_vec(4, k + 1), "d": H3[1][k], "s": H3[2][k]}

    def ref_factors(self, k, v):
        p = self.par(k)
        return {"y": lg_gauss(v["y"], p["A"] @ v["x"], 1.0 / v["s"]),
                "x": lg_gauss_prec(v["x"], p["m0"], v["d"] * p["P"]),
                "d": lg_gamma(v["d"], *p["gd"]), "s": lg_gamma(v["s"], *p["gs"])}


class G3(Graph):
    gid = "G3"
    title = "LMRF prior scale=lambda d:1/d (non-zero location), y~N(Ax, diag cov vector), d~Gamma"
    free = ["y", "x", "d"]
    dims = {"y": 2, "x": 3, "d": 1}
    parents = {"y": ["x"], "x": ["d"], "d": []}

    def par(self, k):
        return dict(A=refs.full_matrix(2, 3, k + 1), loc=refs.dyadic_vec(3, k + 5, scale=0.125),
                    D=refs.fd1_1d(3, "zero"), cy=np.array([[0.5, 0.25], [1.5, 0.75], [0.125, 2.0]][k]),
                    gd=([2.5, 1.5, 3.0][k], [1.0, 0.5, 2.0][k]))

    def build(self, k):
        cuqi = _cuqi()
        p = self.par(k)
        D = cuqi.distribution
        _m = cuqi.model.LinearModel(p["A"])
        f = {}
        f["y"] = D.Gaussian(mean=_m, cov=p["cy"].copy(), name="y")
        f["x"] = D.LMRF(p["loc"], lambda d: 1.0 / d, bc_type="zero", geometry=3, name="x")
        f["d"] = D.Gamma(p["gd"][0], p["gd"][1], name="d")
        return Bundle(D.JointDistribution(f["y"], f["x"], f["d"]), f, {"A": _m})

    def values(self, k):
        return {"y": refs.dyadic_vec(2, k + 6), "x": refs.dyadic_vec(3, k + 2), "d": H3[2][k]}

    def ref_factors(self, k, v):
        p = self.par(k)
        return {"y": lg_gauss(v["y"], p["A"] @ v["x"], p["cy"]),
                "x": lg_lmrf(v["x"], p["loc"], 1.0 / v["d"], p["D"]),
                "d": lg_gamma(v["d"], *p["gd"])}


def _F4(x):
    return np.array([x[0] ** 2 + x[1], x[0] * x[1], math.exp(0.5 * x[1])])


def _J4(x):
    return np.array([[2 * x[0], 1.0], [x[1], x[0]], [0.0, 0.5 * math.exp(0.5 * x[1])]])


class G4(Graph):
    gid = "G4"
    title = "non-linear Model with Jacobian: y~N(F(x),1/s I), x~N(m0, sqrtcov diag), s~Gamma; factor order x,s,y"
    free = ["x", "s", "y"]
    dims = {"x": 2, "s": 1, "y": 3}
    parents = {"y": ["x", "s"], "x": [], "s": []}

    def par(self, k):
        return dict(m0=refs.dyadic_vec(2, k + 3, scale=0.125), sd=np.array([[0.5, 2.0], [1.5, 0.25], [0.75, 1.25]][k]),
                    gs=([2.0, 1.5, 3.0][k], [2.0, 0.5, 1.0][k]))

    def build(self, k):
        cuqi = _cuqi()
        p = self.par(k)
        D = cuqi.distribution
        _m = cuqi.model.Model(lambda x: _F4(x), range_geometry=3, domain_geometry=2, jacobian=lambda x: _J4(x))
        f = {}
        f["x"] = D.Gaussian(mean=p["m0"], sqrtcov=p["sd"].copy(), name="x")
        f["s"] = D.Gamma(p["gs"][0], p["gs"][1], name="s")
        f["y"] = D.Gaussian(mean=_m, cov=lambda s: 1.0 / s, name="y")
        return Bundle(D.JointDistribution(f["x"], f["s"], f["y"]), f, {"F": _m})

    def values(self, k):
        return {"y": refs.dyadic_vec(3, k + 1), "x": refs.dyadic_vec(2, k + 7, scale=0.125), "s": H3[0][k]}

    def ref_factors(self, k, v):
        p = self.par(k)
        return {"y": lg_gauss(v["y"], _F4(v["x"]), 1.0 / v["s"]),
                "x": lg_gauss(v["x"], p["m0"], p["sd"] ** 2),
                "s": lg_gamma(v["s"], *p["gs"])}


class G5(Graph):
    gid = "G5"
    title = "two likelihoods on one x: y1~N(A1x,c1), y2~N(A2x,1/s I), x~N(m0,C full), s~Gamma"
    free = ["y1", "y2", "x", "s"]
    dims = {"y1": 2, "y2": 3, "x": 3, "s": 1}
    parents = {"y1": ["x"], "y2": ["x", "s"], "x": [], "s": []}

    def par(self, k):
        return dict(A1=refs.full_matrix(2, 3, k), A2=refs.full_matrix(3, 3, k + 2), c1=[0.5, 2.0, 0.25][k],
                    m0=refs.dyadic_vec(3, k + 4, scale=0.125), C=refs.spd_matrix(3, k),
                    gs=([3.0, 2.0, 1.5][k], [1.5, 1.0, 0.5][k]))

    def build(self, k):
        cuqi = _cuqi()
        p = self.par(k)
        D = cuqi.distribution
        _m1 = cuqi.model.LinearModel(p["A1"])
        _m2 = cuqi.model.LinearModel(p["A2"])
        f = {}
        f["y1"] = D.Gaussian(mean=_m1, cov=p["c1"], name="y1")
        f["y2"] = D.Gaussian(mean=_m2, cov=lambda s: 1.0 / s, name="y2")
        f["x"] = D.Gaussian(mean=p["m0"], cov=p["C"].copy(), name="x")
        f["s"] = D.Gamma(p["gs"][0], p["gs"][1], name="s")
        return Bundle(D.JointDistribution(f["y1"], f["y2"], f["x"], f["s"]), f, {"A1": _m1, "A2": _m2})

    def values(self, k):
        return {"y1": refs.dyadic_vec(2, k + 5), "y2": refs.dyadic_vec(3, k + 8), "x": refs.dyadic_vec(3, k),
                "s": H3[1][k]}

    def ref_factors(self, k, v):
        p = self.par(k)
        return {"y1": lg_gauss(v["y1"], p["A1"] @ v["x"], p["c1"]),
                "y2": lg_gauss(v["y2"], p["A2"] @ v["x"], 1.0 / v["s"]),
                "x": lg_gauss(v["x"], p["m0"], p["C"]),
                "s": lg_gamma(v["s"], *p["gs"])}


class G6a(Graph):
    gid = "G6a"
    title = "scalar chain a~Beta, b~InverseGamma, z~Laplace(loc=lambda a,b: a-b/2), w~Cauchy(loc=lambda z, scale=lambda b)"
    free = ["a", "b", "z", "w"]
    dims = {"a": 1, "b": 1, "z": 1, "w": 1}
    parents = {"a": [], "b": [], "z": ["a", "b"], "w": ["z", "b"]}

    def par(self, k):
        return dict(ab=([2.0, 1.5, 3.0][k], [3.0, 2.5, 1.25][k]), ig=([3.0, 2.0, 4.0][k], [0.0, 0.25, 0.0][k], [2.0, 1.0, 0.5][k]),
                    zs=[1.5, 0.5, 2.0][k])

    def build(self, k):
        cuqi = _cuqi()
        p = self.par(k)
        D = cuqi.distribution
        f = {}
        f["a"] = D.Beta(p["ab"][0], p["ab"][1], name="a")
        f["b"] = D.InverseGamma(p["ig"][0], p["ig"][1], p["ig"][2], name="b")
        f["z"] = D.Laplace(lambda a, b: a - 0.5 * b, p["zs"], geometry=1, name="z")
        f["w"] = D.Cauchy(lambda z: 0.5 * z, lambda b: b, geometry=1, name="w")
        return Bundle(D.JointDistribution(f["a"], f["b"], f["z"], f["w"]), f)

    def values(self, k):
        return {"a": [0.25, 0.625, 0.375][k], "b": [0.75, 1.5, 0.5][k], "z": [0.5, -0.25, 1.25][k], "w": [-0.375, 0.875, 0.125][k]}

    def ref_factors(self, k, v):
        p = self.par(k)
        return {"a": lg_beta(v["a"], *p["ab"]), "b": lg_invgamma(v["b"], *p["ig"]),
                "z": lg_laplace(v["z"], v["a"] - 0.5 * v["b"], p["zs"]),
                "w": lg_cauchy(v["w"], 0.5 * v["z"], v["b"])}


class G6b(Graph):
    gid = "G6b"
    title = "scalar chain u~Uniform, l~Lognormal(mean=lambda u), c~Gamma, t~N(lambda l,u: l*u, lambda c: c)"
    free = ["u", "l", "c", "t"]
    dims = {"u": 1, "l": 1, "c": 1, "t": 1}
    parents = {"u": [], "l": ["u"], "c": [], "t": ["l", "u", "c"]}

    def par(self, k):
        return dict(ub=([0.5, 0.25, 1.0][k], [2.5, 1.75, 3.0][k]), lc=[0.25, 0.5, 1.0][k], gc=([2.0, 3.0, 1.5][k], [1.0, 2.0, 0.5][k]))

    def build(self, k):
        cuqi = _cuqi()
        p = self.par(k)
        D = cuqi.distribution
        f = {}
        f["u"] = D.Uniform(p["ub"][0], p["ub"][1], name="u")
        f["l"] = D.Lognormal(lambda u: 0.5 * u, p["lc"], name="l")
        f["c"] = D.Gamma(p["gc"][0], p["gc"][1], name="c")
        f["t"] = D.Gaussian(lambda l, u: l * u, lambda c: c, geometry=1, name="t")
        return Bundle(D.JointDistribution(f["u"], f["l"], f["c"], f["t"]), f)

    def values(self, k):
        return {"u": [1.0, 1.25, 2.5][k], "l": [1.25, 0.75, 0.5][k], "c": [0.75, 1.5, 2.0][k], "t": [0.5, -0.25, 1.75][k]}

    def ref_factors(self, k, v):
        p = self.par(k)
        return {"u": lg_uniform(v["u"], *p["ub"]), "l": lg_lognormal(v["l"], 0.5 * v["u"], p["lc"]),
                "c": lg_gamma(v["c"], *p["gc"]), "t": lg_gauss(v["t"], v["l"] * v["u"], v["c"])}


class G7(Graph):
    gid = "G7"
    title = "joint assembled from a READY Likelihood L(x,s|y=data), x~N(m0,1/d I), d,s~Gamma"
    free = ["x", "d", "s"]
    data0 = ["y"]
    dims = {"y": 2, "x": 3, "d": 1, "s": 1}
    parents = {"y": ["x", "s"], "x": ["d"], "d": [], "s": []}

    def par(self, k):
        return dict(A=refs.full_matrix(2, 3, k + 2), m0=refs.dyadic_vec(3, k + 6, scale=0.125),
                    gd=([2.0, 1.5, 2.5][k], [0.5, 1.5, 1.0][k]), gs=([1.5, 3.0, 2.0][k], [1.0, 0.5, 2.0][k]))

    def build(self, k):
        cuqi = _cuqi()
        p = self.par(k)
        D = cuqi.distribution
        _m = cuqi.model.LinearModel(p["A"])
        f = {}
        _ydist = D.Gaussian(mean=_m, sqrtprec=lambda s: math.sqrt(s), name="y")
        f["y"] = _ydist.to_likelihood(self.values(k)["y"].copy())
        f["x"] = D.Gaussian(mean=p["m0"], cov=lambda d: 1.0 / d, name="x")
        f["d"] = D.Gamma(p["gd"][0], p["gd"][1], name="d")
        f["s"] = D.Gamma(p["gs"][0], p["gs"][1], name="s")
        return Bundle(D.JointDistribution(f["y"], f["x"], f["d"], f["s"]), f, {"A": _m}, {"ydist": _ydist})

    def values(self, k):
        return {"y": refs.dyadic_vec(2, k + 9), "x": refs.dyadic_vec(3, k + 4), "d": H3[2][k], "s": H3[0][k]}

    def ref_factors(self, k, v):
        p = self.par(k)
        return {"y": lg_gauss(v["y"], p["A"] @ v["x"], 1.0 / v["s"]),
                "x": lg_gauss(v["x"], p["m0"], 1.0 / v["d"]),
                "d": lg_gamma(v["d"], *p["gd"]), "s": lg_gamma(v["s"], *p["gs"])}


class G8(Graph):
    gid = "G8"
    title = "2-D geometry: x~GMRF on Image2D(2x2) prec=lambda d:d, y~N(Ax,1/s I) with Image2D domain, d,s~Gamma"
    free = ["y", "x", "d", "s"]
    dims = {"y": 3, "x": 4, "d": 1, "s": 1}
    parents = {"y": ["x", "s"], "x": ["d"], "d": [], "s": []}

    def par(self, k):
        D2 = refs.fd_ref(2, "zero", 1, physical_dim=2)
        return dict(A=refs.full_matrix(3, 4, k + 1), m0=refs.dyadic_vec(4, k + 3, scale=0.125), P=D2.T @ D2,
                    gd=([2.0, 2.5, 1.5][k], [1.0, 0.5, 1.5][k]), gs=([2.5, 1.5, 3.0][k], [2.0, 1.0, 0.5][k]))

    def build(self, k):
        cuqi = _cuqi()
        p = self.par(k)
        D = cuqi.distribution
        _geom = cuqi.geometry.Image2D((2, 2))
        _A = p["A"]
        # function-based linear model acting on the 2x2 image (function values), C-order flattening
        _m = cuqi.model.LinearModel(lambda x: _A @ np.asarray(x).reshape(4), lambda y: (_A.T @ y).reshape(2, 2),
                                    domain_geometry=_geom, range_geometry=cuqi.geometry.Continuous1D(3))
        f = {}
        f["y"] = D.Gaussian(mean=_m, cov=lambda s: 1.0 / s, name="y")
        f["x"] = D.GMRF(p["m0"], lambda d: d, bc_type="zero", order=1, geometry=_geom, name="x")
        f["d"] = D.Gamma(p["gd"][0], p["gd"][1], name="d")
        f["s"] = D.Gamma(p["gs"][0], p["gs"][1], name="s")
        return Bundle(D.JointDistribution(f["y"], f["x"], f["d"], f["s"]), f, {"A": _m})

    def values(self, k):
        return {"y": refs.dyadic_vec(3, k + 2), "x": refs.dyadic_vec(4, k + 5), "d": H3[0][k], "s": H3[2][k]}

    def ref_factors(self, k, v):
        p = self.par(k)
        return {"y": lg_gauss(v["y"], p["A"] @ v["x"], 1.0 / v["s"]),
                "x": lg_gauss_prec(v["x"], p["m0"], v["d"] * p["P"]),
                "d": lg_gamma(v["d"], *p["gd"]), "s": lg_gamma(v["s"], *p["gs"])}


class G9(Graph):
    gid = "G9"
    title = "hyper-parameter shared by two factors: y~N(Ax,1/d I), x~N(m0,2/d I), d~Gamma (MLP on a hyper-parameter)"
    free = ["y", "x", "d"]
    dims = {"y": 2, "x": 3, "d": 1}
    parents = {"y": ["x", "d"], "x": ["d"], "d": []}

    def par(self, k):
        return dict(A=refs.full_matrix(2, 3, k + 3), m0=refs.dyadic_vec(3, k + 7, scale=0.125),
                    gd=([2.5, 2.0, 3.5][k], [1.5, 1.0, 0.5][k]))

    def build(self, k):
        cuqi = _cuqi()
        p = self.par(k)
        D = cuqi.distribution
        _m = cuqi.model.LinearModel(p["A"])
        f = {}
        f["y"] = D.Gaussian(mean=_m, cov=lambda d: 1.0 / d, name="y")
        f["x"] = D.Gaussian(mean=p["m0"], cov=lambda d: 2.0 / d, name="x")
        f["d"] = D.Gamma(p["gd"][0], p["gd"][1], name="d")
        return Bundle(D.JointDistribution(f["y"], f["x"], f["d"]), f, {"A": _m})

    def values(self, k):
        return {"y": refs.dyadic_vec(2, k + 3), "x": refs.dyadic_vec(3, k + 6), "d": H3[1][k]}

    def ref_factors(self, k, v):
        p = self.par(k)
        return {"y": lg_gauss(v["y"], p["A"] @ v["x"], 1.0 / v["d"]),
                "x": lg_gauss(v["x"], p["m0"], 2.0 / v["d"]),
                "d": lg_gamma(v["d"], *p["gd"])}


class G10(Graph):
    gid = "G10"
    title = "5 variables: y~N(Ax,1/s I), x~N(mu*1, 1/d I) (mean and cov callables), mu~N(m,v), d,s~Gamma"
    free = ["y", "x", "mu", "d", "s"]
    dims = {"y": 2, "x": 3, "mu": 1, "d": 1, "s": 1}
    parents = {"y": ["x", "s"], "x": ["mu", "d"], "mu": [], "d": [], "s": []}

    def par(self, k):
        return dict(A=refs.full_matrix(2, 3, k + 4), mm=([0.5, -0.25, 1.0][k], [2.0, 0.5, 1.5][k]),
                    gd=([2.0, 3.0, 1.5][k], [1.0, 2.0, 0.5][k]), gs=([3.0, 1.5, 2.5][k], [0.5, 1.0, 1.5][k]))

    def build(self, k):
        cuqi = _cuqi()
        p = self.par(k)
        D = cuqi.distribution
        _m = cuqi.model.LinearModel(p["A"])
        f = {}
        f["y"] = D.Gaussian(mean=_m, cov=lambda s: 1.0 / s, name="y")
        f["x"] = D.Gaussian(mean=lambda mu: mu * np.ones(3), cov=lambda d: 1.0 / d, geometry=3, name="x")
        f["mu"] = D.Gaussian(mean=p["mm"][0], cov=p["mm"][1], name="mu")
        f["d"] = D.Gamma(p["gd"][0], p["gd"][1], name="d")
        f["s"] = D.Gamma(p["gs"][0], p["gs"][1], name="s")
        return Bundle(D.JointDistribution(f["y"], f["x"], f["mu"], f["d"], f["s"]), f, {"A": _m})

    def values(self, k):
        return {"y": refs.dyadic_vec(2, k + 1), "x": refs.dyadic_vec(3, k + 8), "mu": [0.75, -0.5, 0.25][k],
                "d": H3[2][k], "s": H3[1][k]}

    def ref_factors(self, k, v):
        p = self.par(k)
        return {"y": lg_gauss(v["y"], p["A"] @ v["x"], 1.0 / v["s"]),
                "x": lg_gauss(v["x"], v["mu"] * np.ones(3), 1.0 / v["d"]),
                "mu": lg_gauss(v["mu"], p["mm"][0], p["mm"][1]),
                "d": lg_gamma(v["d"], *p["gd"]), "s": lg_gamma(v["s"], *p["gs"])}


GRAPHS = {g.gid: g for g in (G1(), G2(), G3(), G4(), G5(), G6a(), G6b(), G7(), G8(), G9(), G10())}
ORDER = ["G1", "G2", "G3", "G4", "G5", "G6a", "G6b", "G7", "G8", "G9"]      # <= 4 variables
ORDER5 = ["G10"]                                                            # 5 variables (thorough tier)


def copy_val(v):
    return np.array(v, dtype=float, copy=True) if isinstance(v, np.ndarray) else float(v)


def scalar(v):
    """Library log-densities come back as float, 0-d or 1-element arrays: reduce to float or raise."""
    a = np.asarray(v, dtype=float)
    if a.size != 1:
        raise ValueError("log-density is not a single number: shape %s" % (a.shape,))
    return float(a.ravel()[0])
