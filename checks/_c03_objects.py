"""C03 helper: deterministic catalogues of objects under test (distributions, likelihoods, posteriors,
multiple-likelihood posteriors) with their evaluation points.  Only used by checks/c03.py.

Every generator yields (component, keys, facets, builder) where builder() -> Case (may raise = construction
refused by the library, which the property allows)."""
import contextlib
import numpy as np
import scipy.sparse as sp
from vfw import refs
from checks._c03_engine import Case, Pieces


# ------------------------------------------------------------------------------------------
# value catalogues (dyadic, generic, deterministic)
# ------------------------------------------------------------------------------------------
def posvec(n, k=0):
    base = [1.0, 2.0, 4.0, 0.5, 0.25, 3.0, 1.5, 0.75, 6.0, 0.375, 2.5, 1.25, 5.0, 0.625, 3.5, 1.75]
    return np.array([base[(i + 3 * k) % len(base)] for i in range(n)])


def posscalar(k=0):
    return [2.0, 0.5, 4.0][k % 3]


def locvec(n, k=0):
    return refs.dyadic_vec(n, k + 2, scale=0.125)


def generic(n, k=0, j=0):
    return refs.dyadic_vec(n, k + 3 * j)


def basis_points(n, c=0.5, shift=None):
    s = np.zeros(n) if shift is None else np.asarray(shift, float)
    return [("basis%d" % i, s + c * np.eye(n)[i]) for i in range(n)]


def real_points(n, k, npts):
    pts = basis_points(n)
    for j in range(npts):
        pts.append(("generic%d" % j, generic(n, k, j)))
    return pts


def unit_points(n, k, npts):
    """points inside (0,1)^n at distance >= 1/8 from the boundary"""
    pts = [("basis%d" % i, 0.5 + 0.25 * np.eye(n)[i]) for i in range(n)]
    vals = [0.25, 0.625, 0.375, 0.75, 0.125, 0.875, 0.5, 0.3125]
    for j in range(npts):
        pts.append(("generic%d" % j, np.array([vals[(i + 2 * k + 3 * j) % len(vals)] for i in range(n)])))
    return pts


def positive_points(n, k, npts, shift=None):
    """points with every coordinate >= shift + 1/4"""
    s = np.zeros(n) if shift is None else np.broadcast_to(np.asarray(shift, float), (n,)).copy()
    pts = [("basis%d" % i, s + 1.0 + 0.5 * np.eye(n)[i]) for i in range(n)]
    vals = [0.5, 1.25, 2.0, 0.75, 3.0, 0.25, 1.5, 2.5]
    for j in range(npts):
        pts.append(("generic%d" % j, s + np.array([vals[(i + k + 3 * j) % len(vals)] for i in range(n)])))
    return pts


def outside_lower(n, bound, k):
    """points with one / all coordinates at or below a lower bound"""
    b = np.broadcast_to(np.asarray(bound, float), (n,)).copy()
    inside = b + 1.0
    out = []
    x = inside.copy(); x[0] = b[0] - 0.5
    out.append(("one-below", x))
    out.append(("all-below", b - 0.25 - 0.25 * np.arange(n)))
    x = inside.copy(); x[-1] = b[-1]
    out.append(("on-boundary", x))
    return out


def NINT(npts):
    """number of integer-valued inside points per object of the cheap plain families (the matrix-valued ones -
    Gaussian, GMRF, CMRF - and the composites take npts of them)"""
    return min(npts + 1, 3)


def int_points(dim, k, npts, lo=None, hi=None, boundary_out=False, keep=None):
    """INTEGER-VALUED evaluation points of the box support prod_i (lo_i, hi_i) (None = unbounded), to be handed to
    gradient() in every representation of the point (float64 / int64 / list / float32 / python scalar).

    inside : npts points whose coordinates are integers at distance >= 1/4 from every finite bound (taken cyclically
             from the window of admissible integers, mixed signs where the support allows); none when some
             coordinate admits no such integer (e.g. the open unit interval)
    outside: one coordinate below / above (others inside), all coordinates below / above, and - when the family
             excludes its boundary (boundary_out) and a bound is an integer - one coordinate on the boundary
    keep   : optional predicate on inside points (distance from kinks)"""
    lo_v = np.full(dim, -np.inf) if lo is None else np.broadcast_to(np.asarray(lo, float), (dim,)).copy()
    hi_v = np.full(dim, np.inf) if hi is None else np.broadcast_to(np.asarray(hi, float), (dim,)).copy()
    windows = []
    for i in range(dim):
        a = int(np.ceil(lo_v[i] + 0.25)) if np.isfinite(lo_v[i]) else (-3 if not np.isfinite(hi_v[i]) else int(np.floor(hi_v[i] - 0.25)) - 6)
        b = int(np.floor(hi_v[i] - 0.25)) if np.isfinite(hi_v[i]) else a + 6
        windows.append(list(range(a, min(b, a + 6) + 1)))
    inside = []
    if all(windows):
        order = [2, -3, 1, -1, 3, -2, 0]          # positions in the window: mixed signs on the real line, zero last
        j = 0
        while len(inside) < npts and j < npts + 4:
            x = np.array([w[order[(i + k + 2 * j) % len(order)] % len(w)] for i, w in enumerate(windows)], dtype=float)
            j += 1
            if keep is not None and not keep(x):
                continue
            if any(np.array_equal(x, y) for _, y in inside):
                continue
            inside.append(("int%d" % len(inside), x))
    below = np.floor(lo_v - 0.25)       # nearest integers strictly outside (at distance >= 1/4)
    above = np.ceil(hi_v + 0.25)
    outside = []
    base = inside[0][1] if inside else None
    if base is not None and np.isfinite(lo_v[0]):
        x = base.copy(); x[0] = below[0]
        outside.append(("int-one-below", x))
    if base is not None and np.isfinite(hi_v[-1]):
        x = base.copy(); x[-1] = above[-1]
        outside.append(("int-one-above", x))
    if np.all(np.isfinite(lo_v)):
        outside.append(("int-all-below", below - np.arange(dim) % 2))
    if np.all(np.isfinite(hi_v)):
        outside.append(("int-all-above", above + np.arange(dim) % 2))
    if boundary_out:
        if np.isfinite(lo_v[-1]) and lo_v[-1] == np.rint(lo_v[-1]):
            x = base.copy() if base is not None else np.where(np.isfinite(lo_v), np.rint(lo_v), 1.0)
            x[-1] = lo_v[-1]
            outside.append(("int-on-boundary-low", x))
        if np.isfinite(hi_v[0]) and hi_v[0] == np.rint(hi_v[0]):
            x = base.copy() if base is not None else np.where(np.isfinite(hi_v), np.rint(hi_v), 1.0)
            x[0] = hi_v[0]
            outside.append(("int-on-boundary-high", x))
    outside = [(n_, x) for n_, x in outside if np.array_equal(x, np.rint(x))]
    return inside, outside


def boundary_points(dim, lo=None, hi=None):
    """Points exactly ON the finite bounds of the box prod_i [lo_i, hi_i] (None / inf = unbounded):
      faces  : for every coordinate i and every finite bound of it, the point with x_i = that bound and all other
               coordinates strictly inside (midpoint of a bounded interval, bound +- 1 of a half-bounded one, 0 otherwise);
      corners: every coordinate that has a finite bound sits on one - all 2^m choices for m <= 3 bounded coordinates,
               otherwise all-lower, all-upper and the two alternating lower/upper patterns.
    -> list of (at, kind, x), at in {"lower", "upper", "mixed"}: which kind of bounds the point touches."""
    lo_v = np.full(dim, -np.inf) if lo is None else np.broadcast_to(np.asarray(lo, float), (dim,)).copy()
    hi_v = np.full(dim, np.inf) if hi is None else np.broadcast_to(np.asarray(hi, float), (dim,)).copy()
    base = np.zeros(dim)
    for i in range(dim):
        l, h = np.isfinite(lo_v[i]), np.isfinite(hi_v[i])
        base[i] = 0.5 * (lo_v[i] + hi_v[i]) if (l and h) else (lo_v[i] + 1.0 if l else (hi_v[i] - 1.0 if h else 0.0))
    pts = []

    def add(at, kind, x):
        if not any(np.array_equal(x, y) for _, _, y in pts):
            pts.append((at, kind, x))
    for i in range(dim):
        if np.isfinite(lo_v[i]):
            x = base.copy(); x[i] = lo_v[i]
            add("lower", "face-low%d" % i, x)
    for i in range(dim):
        if np.isfinite(hi_v[i]):
            x = base.copy(); x[i] = hi_v[i]
            add("upper", "face-high%d" % i, x)
    J = [i for i in range(dim) if np.isfinite(lo_v[i]) or np.isfinite(hi_v[i])]
    if J:
        choices = [[c for c, b in (("l", lo_v[i]), ("h", hi_v[i])) if np.isfinite(b)] for i in J]
        if len(J) <= 3:
            import itertools
            patterns = list(itertools.product(*choices))
        else:
            patterns = [tuple(ch[0] for ch in choices), tuple(ch[-1] for ch in choices),
                        tuple(ch[j % 2 if len(ch) > 1 else 0] for j, ch in enumerate(choices)),
                        tuple(ch[(j + 1) % 2 if len(ch) > 1 else 0] for j, ch in enumerate(choices))]
        for pat in patterns:
            x = base.copy()
            for i, c in zip(J, pat):
                x[i] = lo_v[i] if c == "l" else hi_v[i]
            at = "lower" if all(c == "l" for c in pat) else ("upper" if all(c == "h" for c in pat) else "mixed")
            add(at, "corner-" + "".join(pat), x)
    return pts


def ipts(dim, k, npts, **kw):
    """keyword arguments for Case(...) with the integer-valued points and, for a support with finite bounds, the
    points exactly on those bounds (faces and corners)"""
    ins, out = int_points(dim, k, npts, **kw)
    return {"int_inside": ins, "int_outside": out, "boundary": boundary_points(dim, kw.get("lo"), kw.get("hi"))}


@contextlib.contextmanager
def sparse_threshold(on):
    """Lower cuqi.config.MIN_DIM_SPARSE so that the library's 'sparse_flag' branch is taken at small dim."""
    import cuqi
    old = cuqi.config.MIN_DIM_SPARSE
    if on:
        cuqi.config.MIN_DIM_SPARSE = 0
    try:
        yield
    finally:
        cuqi.config.MIN_DIM_SPARSE = old


# ------------------------------------------------------------------------------------------
# plain distribution families
# ------------------------------------------------------------------------------------------
def gen_gaussian(dim, k, npts, full=True):
    import cuqi
    keys = ["param", "form", "mean", "path", "geom"]
    S = refs.spd_matrix(dim, k)
    v = posvec(dim, k)
    s = posscalar(k)
    Rtri = np.linalg.cholesky(S).T          # non-symmetric square root
    means = {"zero": np.zeros(dim), "scalar": 0.75, "vector": locvec(dim, k)}
    forms = {"scalar": s, "vector": v, "diag": np.diag(v), "dense": S, "sparse": sp.csr_matrix(S),
             "tri": Rtri}
    pts = real_points(dim, k, npts)
    for param in ("cov", "prec", "sqrtcov", "sqrtprec"):
        for form, val in forms.items():
            if form == "tri" and param in ("cov", "prec"):
                continue
            for mk, m in means.items():
                for path in ("dense", "sparseflag"):
                    geoms = ("default", "continuous1d", "mapped", "mapped-usergrad") if path == "dense" else ("default",)
                    for geom in geoms:
                        facets = {"param": param, "form": form, "mean": _nz(mk), "path": path, "geom": geom, "sub": mk}

                        def build(param=param, form=form, val=val, m=m, path=path, geom=geom):
                            kw = {}
                            if geom != "default":
                                kw["geometry"] = _dist_geometry(geom, dim)
                            with sparse_threshold(path == "sparseflag"):
                                d = cuqi.distribution.Gaussian(np.array(m, copy=True) if isinstance(m, np.ndarray) else m,
                                                               **{param: (val.copy() if hasattr(val, "copy") else val)}, **kw)
                            ref_logd = None
                            if form != "tri":   # symmetric forms only: no R^T R / R R^T ambiguity
                                mat = np.asarray(val.todense()) if sp.issparse(val) else np.asarray(val, float)
                                if mat.ndim == 0:
                                    mat = float(mat) * np.eye(dim)
                                elif mat.ndim == 1:
                                    mat = np.diag(mat)
                                P = {"cov": lambda M: np.linalg.inv(M), "prec": lambda M: M,
                                     "sqrtcov": lambda M: np.linalg.inv(M.T @ M),
                                     "sqrtprec": lambda M: M.T @ M}[param](mat)
                                mm = np.broadcast_to(np.asarray(m, float), (dim,))
                                ref_logd = lambda x: -0.5 * float((np.asarray(x, float) - mm) @ P @ (np.asarray(x, float) - mm))
                            return Case("Gaussian", facets, d, pts, ref_logd=ref_logd, **ipts(dim, k, npts))
                        yield "Gaussian", keys, facets, build


def _nz(kind):
    return "zero" if kind == "zero" else "nonzero"


def _dist_geometry(geom, dim):
    import cuqi
    if geom == "continuous1d":
        return cuqi.geometry.Continuous1D(dim)
    if geom == "discrete":
        return cuqi.geometry.Discrete(["v%d" % i for i in range(dim)])
    if geom == "mapped":
        return cuqi.geometry.MappedGeometry(cuqi.geometry.Continuous1D(dim), map=lambda x: 2 * x, imap=lambda x: x / 2)
    if geom == "mapped-usergrad":
        g = cuqi.geometry.MappedGeometry(cuqi.geometry.Continuous1D(dim), map=lambda x: 2 * x, imap=lambda x: x / 2)
        g.gradient = lambda direction, wrt: 2 * np.asarray(direction)
        return g
    if geom == "image2d":
        return cuqi.geometry.Image2D((dim, 1))
    raise ValueError(geom)


def pin_gmrf_constant(d):
    """Rank-deficient (neumann/periodic) GMRFs take their log-determinant from ARPACK, whose start vector comes from
    a process-global Fortran generator: the reported normalising constant depends on the process history and is
    sometimes NaN.  C03 concerns derivatives only, so the additive constant is pinned (logd keeps its x-dependence)."""
    if hasattr(d, "_logdet"):
        d._logdet = 0.0
    return d


def _mrf_geom(pd, N):
    import cuqi
    return N if pd == "1d" else cuqi.geometry.Image2D((N, N))


def gen_gmrf(sizes, k, npts):
    """sizes: dict pd -> N"""
    import cuqi
    keys = ["pd", "bc", "order", "mean", "precform"]
    for pd, N in sizes.items():
        dim = N if pd == "1d" else N * N
        pts = real_points(dim, k, npts)
        means = {"zero": np.zeros(dim), "scalar": 0.75, "vector": locvec(dim, k)}
        for bc in ("zero", "neumann", "periodic"):
            for order in (0, 1, 2):
                for mk, m in means.items():
                    for pf in ("float", "array1"):
                        facets = {"pd": pd, "bc": bc, "order": str(order), "mean": _nz(mk), "precform": pf, "sub": mk}

                        def build(pd=pd, N=N, bc=bc, order=order, m=m, pf=pf, facets=facets, pts=pts, dim=dim):
                            prec = posscalar(k) if pf == "float" else np.array([posscalar(k)])
                            mean = m if isinstance(m, np.ndarray) else m * np.ones(dim)
                            d = pin_gmrf_constant(cuqi.distribution.GMRF(mean, prec, bc_type=bc, order=order, geometry=_mrf_geom(pd, N)))
                            Dr = refs.fd_ref(N, bc, order, 1 if pd == "1d" else 2)
                            Pr = posscalar(k) * (Dr.T @ Dr)
                            ref_logd = lambda x: -0.5 * float((np.asarray(x, float) - mean) @ Pr @ (np.asarray(x, float) - mean))
                            return Case("GMRF", facets, d, pts, ref_logd=ref_logd, **ipts(dim, k, npts))
                        yield "GMRF", keys, facets, build


def gen_cmrf(sizes, k, npts):
    import cuqi
    keys = ["pd", "bc", "loc"]
    for pd, N in sizes.items():
        dim = N if pd == "1d" else N * N
        pts = real_points(dim, k, npts)
        locs = {"zero": np.zeros(dim), "scalar": 0.5, "vector": locvec(dim, k)}
        for bc in ("zero", "neumann", "periodic"):
            for lk, L in locs.items():
                facets = {"pd": pd, "bc": bc, "loc": _nz(lk), "sub": lk}

                def build(pd=pd, N=N, bc=bc, L=L, facets=facets, pts=pts):
                    d = cuqi.distribution.CMRF(L, [0.5, 2.0, 0.25][k], bc_type=bc, geometry=_mrf_geom(pd, N))
                    return Case("CMRF", facets, d, pts, **ipts(dim, k, npts))
                yield "CMRF", keys, facets, build


def gen_lmrf(sizes, k, npts):
    """No analytic gradient: must raise; with FD the derivative (points with no zero difference only)."""
    import cuqi
    keys = ["pd", "bc", "loc"]
    for pd, N in sizes.items():
        dim = N if pd == "1d" else N * N
        locs = {"zero": np.zeros(dim), "vector": locvec(dim, k)}
        for bc in ("zero", "neumann", "periodic"):
            Dref = refs.fd_ref(N, bc, 1, 1 if pd == "1d" else 2)
            for lk, L in locs.items():
                facets = {"pd": pd, "bc": bc, "loc": _nz(lk), "sub": lk}
                pts = []
                for j in range(npts + 2):
                    x = generic(dim, k, j) + 0.0625 * np.arange(dim) ** 2
                    if np.min(np.abs(Dref @ (x - L))) >= 0.03125:     # stay away from the |.| kinks
                        pts.append(("generic%d" % j, x))

                def build(pd=pd, N=N, bc=bc, L=L, facets=facets, pts=pts, Dref=Dref, dim=dim):
                    d = cuqi.distribution.LMRF(L, [0.5, 2.0, 0.25][k], bc_type=bc, geometry=_mrf_geom(pd, N))
                    away = lambda x: bool(np.min(np.abs(Dref @ (x - L))) >= 0.03125)     # stay away from the |.| kinks
                    return Case("LMRF", facets, d, pts, **ipts(dim, k, NINT(npts), keep=away))
                yield "LMRF", keys, facets, build


def _sv(kind, scalar, vector):
    return scalar if kind == "scalar" else vector.copy()


def gen_iid_families(dim, k, npts):
    """Cauchy, SmoothedLaplace, Beta, InverseGamma, ModifiedHalfNormal, Uniform, Normal, Gamma, Laplace, Lognormal."""
    import cuqi
    D = cuqi.distribution
    forms = ("scalar", "vector")
    geomkinds = ("default", "mapped")
    lv = locvec(dim, k)
    pv = posvec(dim, k)

    def geokw(g, allscalar):
        if g == "mapped":
            return {"geometry": _dist_geometry("mapped", dim)}
        if allscalar and dim > 1:
            return {"geometry": dim}
        return {}

    # ---- Cauchy -------------------------------------------------------------------------
    keys = ["loc", "scale", "geom"]
    for lk, L in (("zero", 0.0), ("scalar", 0.5), ("vector", lv)):
        for sk in forms:
            for g in geomkinds:
                facets = {"loc": _nz(lk), "scale": sk, "geom": g, "sub": lk}

                def build(L=L, lk=lk, sk=sk, g=g, facets=facets):
                    d = D.Cauchy(L if not isinstance(L, np.ndarray) else L.copy(), _sv(sk, posscalar(k), pv),
                                 **geokw(g, lk != "vector" and sk == "scalar"))
                    return Case("Cauchy", facets, d, real_points(dim, k, npts), **ipts(dim, k, NINT(npts)))
                yield "Cauchy", keys, facets, build

    # ---- SmoothedLaplace ----------------------------------------------------------------
    keys = ["loc", "scale", "beta"]
    for lk, L in (("zero", 0.0), ("scalar", 0.5), ("vector", lv)):
        for sk in forms:
            for bk, beta in (("default", None), ("large", 0.25)):
                facets = {"loc": _nz(lk), "scale": sk, "beta": bk, "sub": lk}

                def build(L=L, lk=lk, sk=sk, beta=beta, facets=facets):
                    kw = geokw("default", lk != "vector" and sk == "scalar")
                    if beta is not None:
                        kw["beta"] = beta
                    d = D.SmoothedLaplace(L if not isinstance(L, np.ndarray) else L.copy(), _sv(sk, posscalar(k), pv), **kw)
                    return Case("SmoothedLaplace", facets, d, real_points(dim, k, npts), **ipts(dim, k, NINT(npts)))
                yield "SmoothedLaplace", keys, facets, build

    # ---- Beta ---------------------------------------------------------------------------
    keys = ["alpha", "beta", "geom"]
    for ak in forms:
        for bk in forms:
            for g in geomkinds:
                facets = {"alpha": ak, "beta": bk, "geom": g}

                def build(ak=ak, bk=bk, g=g, facets=facets):
                    d = D.Beta(_sv(ak, [2.5, 0.5, 3.0][k], pv + 0.25), _sv(bk, [1.5, 3.0, 0.75][k], pv[::-1] + 0.5),
                               **geokw(g, ak == "scalar" and bk == "scalar"))
                    out = [("one-below", np.r_[-0.25, 0.5 * np.ones(dim - 1)]), ("one-above", np.r_[0.5 * np.ones(dim - 1), 1.25]),
                           ("all-below", -0.25 - 0.125 * np.arange(dim)), ("on-boundary0", np.r_[0.0, 0.5 * np.ones(dim - 1)]),
                           ("on-boundary1", np.r_[0.5 * np.ones(dim - 1), 1.0])]
                    return Case("Beta", facets, d, unit_points(dim, k, npts), out,
                                **ipts(dim, k, NINT(npts), lo=0.0, hi=1.0, boundary_out=True))
                yield "Beta", keys, facets, build

    # ---- InverseGamma -------------------------------------------------------------------
    keys = ["shape", "loc", "scale", "geom"]
    for shk in forms:
        for lk, L in (("zero", 0.0), ("scalar", -0.5), ("vector", lv)):
            for sk in forms:
                for g in geomkinds:
                    facets = {"shape": shk, "loc": _nz(lk), "scale": sk, "geom": g, "sub": lk}

                    def build(shk=shk, lk=lk, L=L, sk=sk, g=g, facets=facets):
                        d = D.InverseGamma(_sv(shk, [3.0, 1.5, 2.0][k], pv + 1.0), L if not isinstance(L, np.ndarray) else L.copy(),
                                           _sv(sk, posscalar(k), pv[::-1]),
                                           **geokw(g, shk == "scalar" and lk != "vector" and sk == "scalar"))
                        return Case("InverseGamma", facets, d, positive_points(dim, k, npts, shift=L), outside_lower(dim, L, k),
                                    **ipts(dim, k, NINT(npts), lo=L, boundary_out=True))
                    yield "InverseGamma", keys, facets, build

    # ---- ModifiedHalfNormal -------------------------------------------------------------
    keys = ["form"]
    for fk in forms:
        facets = {"form": fk}

        def build(fk=fk, facets=facets):
            a = _sv(fk, [2.5, 1.5, 3.0][k], pv + 0.5)
            b = _sv(fk, [1.0, 0.5, 2.0][k], pv[::-1])
            c = _sv(fk, [0.5, -1.0, 0.25][k], lv)
            d = D.ModifiedHalfNormal(a, b, c, **geokw("default", fk == "scalar"))
            return Case("ModifiedHalfNormal", facets, d, positive_points(dim, k, npts), outside_lower(dim, 0.0, k),
                        **ipts(dim, k, NINT(npts), lo=0.0, boundary_out=True))
        yield "ModifiedHalfNormal", keys, facets, build

    # ---- Uniform ------------------------------------------------------------------------
    keys = ["form"]
    for fk in forms:
        facets = {"form": fk}

        def build(fk=fk, facets=facets):
            lo = _sv(fk, -0.5, lv - 1.0)
            hi = _sv(fk, 1.5, lv + 1.0 + pv)
            d = D.Uniform(lo, hi, **geokw("default", fk == "scalar"))
            lo_v = np.broadcast_to(np.asarray(lo, float), (dim,))
            hi_v = np.broadcast_to(np.asarray(hi, float), (dim,))
            mid = 0.5 * (lo_v + hi_v)
            ins = [("mid", mid.copy())] + [("basis%d" % i, mid + 0.25 * np.eye(dim)[i]) for i in range(dim)]
            ins.append(("generic", lo_v + 0.25 + 0.0625 * np.arange(dim) % 0.5))
            x1 = mid.copy(); x1[0] = lo_v[0] - 0.25
            x2 = mid.copy(); x2[-1] = hi_v[-1] + 0.25
            out = [("one-below", x1), ("one-above", x2), ("all-above", hi_v + 0.5)]
            return Case("Uniform", facets, d, ins, out, **ipts(dim, k, NINT(npts), lo=lo_v, hi=hi_v))
        yield "Uniform", keys, facets, build

    # ---- families without an analytic gradient: Normal, Gamma, Laplace ------------------
    keys = ["form"]
    for fk in forms:
        facets = {"form": fk}

        def build_n(fk=fk, facets=facets):
            d = D.Normal(_sv(fk, 0.75, lv), _sv(fk, posscalar(k), pv), **geokw("default", fk == "scalar"))
            return Case("Normal", facets, d, real_points(dim, k, npts), **ipts(dim, k, NINT(npts)))
        yield "Normal", keys, facets, build_n

        def build_g(fk=fk, facets=facets):
            d = D.Gamma(_sv(fk, [2.5, 1.5, 3.0][k], pv + 0.5), _sv(fk, posscalar(k), pv[::-1]), **geokw("default", fk == "scalar"))
            return Case("Gamma", facets, d, positive_points(dim, k, npts), outside_lower(dim, 0.0, k)[:2],
                        **ipts(dim, k, NINT(npts), lo=0.0))
        yield "Gamma", keys, facets, build_g

        def build_l(fk=fk, facets=facets):
            L = _sv(fk, 0.0625, lv + 0.0625)    # offsets keep every |x_i - loc_i| >= 1/16 at the catalogue points
            d = D.Laplace(L, posscalar(k), **geokw("default", fk == "scalar"))
            Lv = np.broadcast_to(np.asarray(L, float), (dim,))
            pts = [(n_, x) for n_, x in real_points(dim, k, npts) if np.min(np.abs(x - Lv)) >= 0.03125]
            return Case("Laplace", facets, d, pts, **ipts(dim, k, NINT(npts), keep=lambda x: bool(np.min(np.abs(x - Lv)) >= 0.03125)))
        yield "Laplace", keys, facets, build_l

    # ---- Lognormal ----------------------------------------------------------------------
    keys = ["mean", "cov", "geom"]
    S = refs.spd_matrix(dim, k)
    for mk, m in (("zero", np.zeros(dim)), ("vector", lv)):
        for ck, C in (("scalar", posscalar(k)), ("vector", pv), ("dense", S)):
            for g in geomkinds:
                facets = {"mean": _nz(mk), "cov": ck, "geom": g, "sub": mk}

                def build(m=m, C=C, g=g, facets=facets):
                    kw = {"geometry": _dist_geometry("mapped", dim)} if g == "mapped" else {}
                    d = D.Lognormal(m.copy(), C.copy() if hasattr(C, "copy") else C, **kw)
                    return Case("Lognormal", facets, d, positive_points(dim, k, npts), outside_lower(dim, 0.0, k),
                                **ipts(dim, k, NINT(npts), lo=0.0, boundary_out=True))
                yield "Lognormal", keys, facets, build


def gen_user(dim, k, npts):
    """UserDefinedDistribution with / without a user gradient; DistributionGallery (dim 2)."""
    import cuqi
    D = cuqi.distribution
    P = refs.spd_matrix(dim, k)
    m = locvec(dim, k)
    logpdf = lambda x: float(-0.5 * (np.asarray(x) - m) @ P @ (np.asarray(x) - m) - 0.25 * np.sum((np.asarray(x) - m) ** 4))
    grad = lambda x: -(P @ (np.asarray(x) - m)) - (np.asarray(x) - m) ** 3
    # facet "the user's gradient_func returns a fresh array per call / a stored array (the same object whenever the same
    # point recurs)"; without a gradient_func there is nothing to vary
    keys = ["usergrad", "alias"]
    for ug, alias in (("yes", "fresh"), ("yes", "stored"), ("no", "fresh")):
        facets = {"usergrad": ug, "alias": alias}

        def build(ug=ug, alias=alias, facets=facets):
            pieces = Pieces(alias)
            gf = pieces.wrap(grad, "UserDefinedDistribution.gradient_func") if ug == "yes" else None
            d = D.UserDefinedDistribution(dim=dim, logpdf_func=logpdf, gradient_func=gf)
            return Case("UserDefinedDistribution", facets, d, real_points(dim, k, npts), pieces=pieces, **ipts(dim, k, NINT(npts)))
        yield "UserDefinedDistribution", keys, facets, build
    if dim == 2:
        keys = ["name"]
        for name in ("CalSom91", "BivariateGaussian", "funnel", "mixture", "squiggle", "donut", "banana"):
            facets = {"name": name}

            def build(name=name, facets=facets):
                d = D.DistributionGallery(name)
                pts = [("generic%d" % j, generic(2, k, j) + np.array([0.0625, 0.03125])) for j in range(npts + 2)]
                pts += [("basis0", np.array([0.5, 0.125])), ("basis1", np.array([-0.125, 0.75]))]
                # integer points: the origin (kink of donut / CalSom91) is excluded
                return Case("DistributionGallery", facets, d, pts, **ipts(2, k, NINT(npts), keep=lambda x: bool(np.max(np.abs(x)) >= 1)))
            yield "DistributionGallery", keys, facets, build


def gen_conditional(dim, k, npts):
    """Distributions whose location is a callable without gradient information: no analytic gradient of the
    (conditional) density exists, so the statement demands that gradient() raises rather than return something."""
    import cuqi
    D = cuqi.distribution
    dim2 = max(dim, 2)
    keys = ["how"]
    fun = lambda z: z

    class _Plain(object):   # a callable mean that is not a cuqi Model and has no .gradient
        def __call__(self, z):
            return z
    specs = {
        "Gaussian": lambda: D.Gaussian(mean=fun, cov=posscalar(k), geometry=dim2),
        "GMRF": lambda: D.GMRF(mean=fun, prec=posscalar(k), geometry=dim2),
        "CMRF": lambda: D.CMRF(location=fun, scale=posscalar(k), geometry=dim2),
        "Lognormal": lambda: D.Lognormal(mean=fun, cov=posvec(dim2, k)),
        "Cauchy": lambda: D.Cauchy(location=fun, scale=posscalar(k), geometry=dim2),
        "Beta": lambda: D.Beta(alpha=fun, beta=2.0, geometry=dim2),
        "InverseGamma": lambda: D.InverseGamma(shape=fun, location=0.0, scale=1.0, geometry=dim2),
    }
    for comp, mk in specs.items():
        for how in ("direct", "likelihood"):
            facets = {"how": how}

            def build(comp=comp, mk=mk, how=how, facets=facets):
                d = mk()
                pts = positive_points(dim2, k, 1)[-1:]
                if how == "direct":
                    obj = d
                else:
                    data = positive_points(dim2, k + 1, 1)[-1][1]
                    if comp == "Beta":
                        data = unit_points(dim2, k, 1)[-1][1]
                    obj = cuqi.likelihood.Likelihood(d, data)
                ii = [("int0", 1.0 + np.arange(dim2) % 2)]      # the gradient must be refused in every representation too
                return Case(comp, facets, obj, pts, fd_targets=[d], int_inside=ii)
            yield comp, keys, dict(facets, _fixed="parameter=callable-without-gradient"), build
