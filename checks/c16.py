"""C16 - solvers return points that satisfy the optimality conditions of their problem.

E3 configuration explorer.  Every cell is one solver configuration on a deterministic,
well-conditioned catalogue problem; the returned point is judged by an *independent* dense
reference: normal-equation residual and the dense solve of (A^T A + sI) x = A^T b (CGLS/PCGLS),
the prox-gradient fixed-point residual, the KKT system and the exact minimiser found by complete
enumeration of all active sets (FISTA/ISTA), ||J^T r|| (LM), a direct SciPy call (wrappers), and
coordinate-wise closed forms + the variational characterisation over a complete lattice
(projections, soft-thresholding).
"""
import itertools
import numpy as np
from vfw.core import CellResult, close
from vfw import refs

PROPERTY = "C16"
RULE = ("cells = solver family x (problem shape, storage, shift, start vector, preconditioner / regulariser, "
        "step size, momentum, method ...) - the full product inside the bound; in each cell the matrix form and "
        "the forward/adjoint-function form are both run and the returned point is compared with dense "
        "reference optimality systems; projection / prox cells evaluate EVERY lattice input against EVERY "
        "lattice competitor.  Start-representation facet: for every solver the same start POINT (zero / integer-valued with "
        "mixed signs / far, all exactly representable) is handed over as integer-dtype array, float32 array, list and CUQIarray; "
        "the returned point is judged by the same independent optimality systems AND compared with the float64-start run of "
        "the same configuration (iterative solvers) resp. with the direct SciPy call on the same object (wrappers), and the "
        "caller's start object must come back untouched (type, dtype, values).  Start-SCALE facet (iterative solvers CGLS, PCGLS, "
        "FISTA/ISTA, LM): the catalogue start vectors multiplied by 2^e, e in {0 (base product), 10, 20, 30}.  Right-hand-side / "
        "solution STRUCTURE facet (same solvers): b = 0 (solution exactly 0 when the system is non-singular), b EXACTLY orthogonal "
        "to range(A) (integer left null vector found by rational elimination; A^T b = 0 in floating point), b = 2^-40 x catalogue b "
        "(solution of tiny norm relative to the start), each from the zero, ones and far start, with and without shift, both "
        "operator forms; LM: zero / orthogonal / tiny data of the quadratically perturbed linear problem and zero / tiny data of "
        "the exponential fit.  Operand-MAGNITUDE facet (CGLS, PCGLS): ONE operand of the problem - the preconditioner P, the operator A "
        "or the data b - multiplied by 2^e, e in {-30, 0 (base product), +30} (exact scaling; P and c P define the same preconditioned "
        "iteration, so the answer must not depend on c), from the zero and the ones start, with and without shift, both operator forms, "
        "both ways of applying P^-1.  All these facets are judged by the same independent dense optimality systems, at a tolerance that is "
        "relative to the problem and accounts for the solver's stopping rule being relative to the INITIAL residual / gradient; "
        "every input is a legal float64 ndarray problem, so a raise is a violation.  RESTRICTED-DOMAIN facet (LM): curve fits "
        "r_i(x) = phi(x0 + x1 t_i) - y_i, phi in {log, sqrt, reciprocal (positive branch)}, 9 abscissae in [-1, 1], exact (zero-residual) "
        "and perturbed data, whose residual is only defined where x0 + x1 t_i > 0, run from EVERY point of a lattice of in-domain starts "
        "(a, a rho) far from the minimiser so that trial steps leave the domain for some components / for all components, crossed with "
        "the user's out-of-domain convention {NaN, +inf, -inf in the offending components; whole vector NaN; whole vector +inf} and the "
        "documented (sparse flag, Jacobian type) pairs [and gradtol, thorough]; the residual handed to the solver classifies every "
        "evaluation the solver makes (evidence counters domain:trial-residual-partly-nonfinite / -all-nonfinite / -with-nan / -with-inf, "
        "domain:runs-with-partly-nonfinite-trial, domain:runs-never-leaving-domain); oracle as for the other LM cells: an explicit raise "
        "after a non-finite trial residual, or a point returned before maxit that is finite, has a finite residual and Jacobian (lies in "
        "the domain) and ||J^T r|| small relative to the start, with info['func'] / info['Jac'] belonging to it; such a cell is "
        "non-trivial when the run converged AND at least one trial residual was non-finite.  ARGUMENT-INTEGRITY facet (every solve of every "
        "cell above): all array-like argument objects handed to a solver / operator - A (dense array or the sparse matrix's data, indices, "
        "indptr; also the matrix behind the function form), b, the preconditioner, box bounds handed to the projection at every iteration, "
        "SciPy keyword arguments, the threshold / bounds of the prox cells (shared by ALL lattice inputs), next to the start vector - are "
        "snapshot (type, dtype, shape, bytes) before the call and compared afterwards (argument-altered|arg=<name>); every reference "
        "optimality system is evaluated from the harness's own pristine copies.  RE-USE facet (cells of kind 'reuse'): ONE set of "
        "argument objects (A and the function form built on it, b, x0, P, shift values, step size, threshold vector, bounds) is "
        "handed to two consecutive solves s1 -> s2: ALL ordered pairs over the step alphabet {CGLS, PCGLS} x {matrix, function} x shift "
        "{0, .5} + ISTA [FISTA for m > n, thorough] x {matrix, function} x {L1, vector box} (so: matrix form then function form on the same b, shift "
        "0 then shift > 0, two solver objects built from the same arrays, PCGLS / ISTA after CGLS ...), and s1 -> the SAME solver object "
        "solved again; crossed with shape, zero / non-zero start, the representation of b (float64 catalogue b; integer-valued b as "
        "float64 / integer array / float32 [/ list / CUQIarray]) and the representation of scalar parameters (python floats / arrays: "
        "0-d shift and step size, length-n threshold vector).  Every solve is judged by the dense optimality system of ITS problem from "
        "pristine copies; a second solve that fails (or raises, or returns another point than on fresh objects) although the same solve "
        "on fresh, equal objects passes is reported as reused-arguments|after=<first solver> resp. solve-called-twice.  LM: all "
        "ordered pairs of the documented (sparse, Jacobian) configurations on one start object + solve twice; wrappers: all ordered "
        "pairs over {L_BFGS_B without / with bounds, minimize L-BFGS-B with bounds, minimize BFGS, maximize BFGS} on one start object "
        "and one bounds ndarray + solve twice, reference = direct SciPy call on pristine equal objects.  PASS-THROUGH KEYWORD facet (minimize / maximize): "
        "the default method=None - SciPy's OWN rule 'constraints -> SLSQP, bounds -> L-BFGS-B, else BFGS' must decide, the wrapper adds no rule of its own - "
        "crossed with every keyword that rule looks at, alone and combined: {tol, options, bounds (active box), linear equality constraint, linear "
        "inequality constraint, box + equality, box + inequality} x tol {default, 1e-10} x gradient given / None (constraint Jacobian given / None); judged "
        "(a) field by field against scipy.optimize.minimize called directly with equal arguments and (b) independently of SciPy: the objective is strictly "
        "convex, so the returned point must be THE KKT point of the problem the keywords describe (feasible; gradient in the cone of the active constraint "
        "normals, multipliers by NNLS) - signature <wrapper>|kkt|kwargs=<keywords>; the bounds list handed over is snapshot.  A cell is non-trivial when the solver stopped "
        "by its own convergence test (before maxit) or, for prox cells, when the lattice has points on both sides of every bound")
BOUND = {
    "quick": "CGLS: 3 shapes (6x4,5x5,3x5) x dense/sparse x shift{0,.5} x 4 starts x {matrix,function}; PCGLS: same x "
             "P{I,diag,tridiag SPD,lower bidiagonal} x {explicit inverse, solve} ; FISTA/ISTA: 3 shapes x 7 regularisers (L1 x3, nonneg, box x3) "
             "x step{.5/L,.99/L} (+sparse and second start for 6x4), n<=5 so all 3^n active sets are enumerated; "
             "LM: 3 problems x 4 (sparse flag, Jacobian type) x 2 starts x gradtol {1e-9, 1e-15 (below round-off)} + matrix form; wrappers: L_BFGS_B 8 configs, minimize 10 methods "
             "x grad/no grad x ndarray/CUQIarray, maximize, LS 3 methods x 2 losses x jac/None; minimize+maximize with method=None x 12 pass-through "
             "keyword sets {tol, options(maxiter=2), bounds, bounds+tol, (eq | ineq) x (alone | with bounds) x (default tol | tol=1e-10)} x grad/no grad "
             "(n=3, box [-0.25,0.5]^3, constraint a.x = d resp. a.x >= d with d = half the maximum of a.x over the box); "
             "projections/prox: d=1 (33-pt lattice), d=2 (13^2), d=3 (7^3): all inputs x all competitors; "
             "start representation {int64, float32, list, CUQIarray} x start point {zero, ints (+far for non-integer reps; "
             "dyadic for wrappers)}: CGLS 3 shapes x shift{0,.5} x both forms, PCGLS same x P=lower bidiagonal x {explicit inverse, "
             "solve}, FISTA and ISTA 6x4 x {L1, vector box} x both forms, LM {expfit, quadpert} x 2 starts x {sparse+csr, dense}, "
             "L_BFGS_B grad/no grad x {none, bounds}, minimize+maximize 5 methods, LS 3 methods x jac/None x 2 starts; "
             "start scale 2^{10,20,30}: CGLS 3 shapes x shift{0,.5} x {ones,e1,far}, PCGLS same x P{I, lower bidiagonal} x {explicit inverse, "
             "solve} x {ones,far}, ISTA shapes 6x4 and 5x5 x 4 regularisers (L1 1.0, nonneg, default box, vector box) x {ones,far}, FISTA (momentum) "
             "6x4 x the same 4 regularisers x ones at 2^10 only, LM {expfit, rosenbrock, quadpert} x 2 starts x {sparse+csr, dense}; right-hand-side structure {0, orthogonal to "
             "range(A) (m>n), 2^-40 b}: CGLS 3 shapes x shift{0,.5} x {zero,ones,far}, PCGLS same x P{I, lower bidiagonal} x {explicit "
             "inverse, solve}, FISTA and ISTA 6x4 x 4 regularisers x {zero,ones,far} and 3x5 x {zero,ones}, LM quadpert x {0, orthogonal, "
             "tiny} and expfit x {0, tiny} x 2 starts x {sparse+csr, dense}; operand magnitude: operand {A, b, P} x 2^{-30,+30} x 3 shapes x "
             "shift{0,.5} x {zero,ones}: CGLS (A, b), PCGLS (A, b, P) x P{I, lower bidiagonal} x {explicit inverse, solve} (2^30 A with "
             "shift on the under-determined shape is ill-conditioned and left out); all dense storage, both operator forms; LM restricted domain: "
             "{log, sqrt, reciprocal} x {exact, perturbed data} x 5 out-of-domain conventions x {sparse+csr, dense} x starts (a, a rho), "
             "a in {16, 64}, rho in {0, +-.375, +-.75} (600 runs, maxit 1000, gradtol 1e-9); argument integrity: every solve of every cell; "
             "re-use histories: 3 shapes x dense x start {zero, ones} x (b, parameter) representation {(catalogue float64, python scalars), "
             "(catalogue float64, arrays), (integer-valued int64, scalars), (integer-valued float32, scalars)} x first step in one of the "
             "families CGLS / PCGLS (P lower bidiagonal, explicit inverse) / ISTA (4 steps each) x second step in the whole 12-step "
             "alphabet + solve-again (13 histories per first step, 3744 in all), LM {expfit, quadpert} x 2 starts x (4 ordered pairs + 2 "
             "solve-again), wrappers 5 first steps x {dyadic, zero start} x (5 second steps + solve-again); prox cells additionally with "
             "the threshold as length-d array and scalar bounds as 0-d arrays",
    "thorough": "as quick with 4 shapes (adds 8x6), every start for every solver, 6 boxes, 4 L1 strengths, finer lattices "
                "(d=2: 25^2, d=3: 13^3), 3 step sizes; start representation adds int32 and integer list, sparse storage, all 4 "
                "preconditioners, FISTA on all shapes x 5 regularisers x far start, LM Rosenbrock from integer starts, "
                "all 10 minimize methods with and without gradient; start scale and right-hand-side structure facets: 4 shapes, dense "
                "and sparse storage, all 4 preconditioners (operand-magnitude facet likewise), all three non-zero starts for PCGLS, ISTA all shapes with m>=n x all "
                "regularisers x 3 step sizes at 2^{10,20,30} and the under-determined 3x5 at 2^10 (dense, largest step), FISTA (momentum) "
                "3 shapes with m>=n at 2^10 and 2^20 (dense, largest step), structure cells for FISTA/ISTA on all 4 shapes x 3 starts; "
                "LM restricted domain: starts a in {4, 8, 16, 32, 64} x rho in {0, +-.375, +-.75, +-.875} (35 starts), and the quick "
                "starts additionally with gradtol 1e-15 (below round-off); re-use histories: 4 shapes x dense x start {zero, ones, far} "
                "x 10 (b, parameter) representations (adds integer-valued b as float64, int32, list, CUQIarray and arrays with int64 / float32 b) "
                "and sparse storage x start {zero, ones} x {(catalogue float64, scalars), (integer-valued int64, scalars)}; "
                "alphabet of 16 steps, 20 on the over-determined shapes (adds PCGLS through the solve path and, for m > n, FISTA with momentum), LM adds rosenbrock",
}
ASSUMPTIONS = [
    "numpy dense linear algebra (solve, lstsq, svd) is the trusted base of all reference optimality systems",
    "solvers are run with tight stopping parameters (CGLS/PCGLS tol=1e-12, maxit=400, ISTA abstol=1e-11, FISTA abstol=1e-9, LM "
    "gradtol=1e-11); the optimality residual is demanded at 1e-7 relative (x vs exact minimiser 1e-6 for FISTA) and ONLY when the "
    "solver stopped before maxit",
    "CGLS/PCGLS: not meeting the own stopping rule within 400 (>= 50 n) iterations on these n<=6, cond<10 problems is reported "
    "as non-convergence (finite-termination property of conjugate gradients); FISTA/ISTA/LM runs that reach maxit are only counted",
    "values outside the catalogue (ill-conditioned or rank-deficient A, steps above 1/L, non-convex regularisers) are not covered",
    "wrappers: the reference is the direct SciPy call with the same arguments in the same process (SciPy is deterministic)",
    "for maximize the info fields may carry either sign (the statement says 'unchanged apart from sign')",
    "pass-through keyword cells: 'SciPy's result unchanged' is read as: every keyword the caller gives reaches scipy.optimize.minimize and, with "
    "method=None, SciPy's default method rule applies; SciPy's warnings about keywords a method does not use are suppressed on both sides; the KKT "
    "oracle is demanded only when SciPy's direct call reports success, at 5e-3 (1 + ||grad f(0)||) with SciPy's default tolerances and 1e-4 (1 + "
    "||grad f(0)||) with tol=1e-10 (SLSQP's tol is a tolerance on f, observed residuals 1.5e-4 resp. 1.6e-6 relative); a coordinate counts as at a "
    "bound / the inequality as active within 1e-5; constraints are linear and one at a time, the objective is the strictly convex catalogue quartic",
    "start representation: every ndarray (integer dtype, float32, CUQIarray) is taken as a start vector the statement quantifies "
    "over - raising for it is a violation; plain lists may be refused (documented type: ndarray) but if accepted the result is "
    "judged like any other.  All start values of this facet are exactly representable in every representation, so the "
    "float64-start run of the same configuration is the same mathematical iteration: agreement is demanded at 1e-7 (LM 1e-6), "
    "and when the float64-start run meets the solver's stopping rule after k iterations, not meeting it from another "
    "representation of the same point within maxit (CGLS/PCGLS/LM) resp. 10k+1000 iterations (FISTA/ISTA) is reported; "
    "if the float64-start run itself is not usable the cell only counts (the float64 cells report that)",
    "wrappers with a non-float64 start: reference = direct SciPy call on an equal object; where SciPy itself refuses "
    "(float32 with the compiled TNC/SLSQP kernels) the wrapper must refuse too",
    "user callbacks of the LM start-representation cells convert their argument with numpy.asarray(x, float)",
    "PCGLS accepts a `shift` argument; the statement's '(shifted, optionally preconditioned) normal equations' is read as: "
    "a non-zero shift is honoured or refused",
    "start-scale / right-hand-side-structure cells, CGLS/PCGLS: the returned point must satisfy ||A^T(b-Ax)-s x|| <= 1e-7 "
    "max(||A^T b||, ||Hx||) + 10 tol ||P|| ||P^-T s0|| + 1e3 eps (||H|| ||x0|| + ||A^T b||), s0 = initial normal residual computed "
    "densely: the solver's documented stopping rule is relative to s0, so from a start of norm 2^30 nothing sharper than tol ||s0|| "
    "is promised; the distance to the dense solution is bounded by ||H^-1|| times that; meeting the stopping rule within 400 "
    "iterations is demanded unless s0 is zero to rounding (start already the solution).  The solver's second, inherited stopping "
    "test ||x|| tol >= 1 is outside the bound: every start has ||x0|| < 2e11 < 1/tol",
    "operand-magnitude cells (CGLS/PCGLS): same oracle as the start-scale cells, evaluated with the SCALED operands (its terms are "
    "homogeneous: ||P|| ||P^-T s0|| does not change when P is scaled, the other terms scale with A resp. b), so nothing beyond the "
    "documented relative stopping rule is demanded; every scaled problem keeps cond(A^T A + s I) < 100 and ||x*|| tol < 1, the one "
    "combination that does not (2^30 A, shift > 0, m < n) is not enumerated; scaling by powers of two only, |e| = 30 (no overflow / "
    "underflow of any product the recurrences form)",
    "start-scale / structure cells, FISTA/ISTA: the stopping rule (abstol on the step) is absolute, hence the same optimality "
    "systems and tolerances as in the base product; the momentum variant only has an O(||x0-x*||^2/k^2) guarantee, so scales "
    "beyond 2^10 (quick) / 2^20 (thorough) and the under-determined shape are not enumerated for it; runs reaching maxit count only",
    "start-scale / structure cells, LM: stationarity is demanded relative to the initial gradient (||J^T r|| <= 1e-7 ||J0^T r0|| + "
    "1e-10 ||J|| ||r||) since the stopping rule is relative to it; a scaled start at which the residual/Jacobian is not finite or "
    "the Jacobian is numerically rank deficient (exp underflow: sigma_min <= 1e-12 sigma_max) lies outside the regular domain: "
    "the cell is counted, not run; a start with exactly zero gradient (zero data, zero start) is itself stationary and returning it after 0 iterations meets the demand (0 <= 0)",
    "argument integrity: 'unchanged' means identical type, dtype, shape and bytes of the object the caller handed over (for sparse "
    "matrices: of data / indices / indptr); callables are not snapshot, but the matrix the function form closes over is; arrays the "
    "user's callbacks RETURN to the solver are not covered",
    "re-use histories: length 2 (plus solving one solver object twice); b of the integer-valued contexts is 4 x the catalogue b (all "
    "entries integers), the L1 strength is 1.0 and the box the vector box, step 0.99/L; a raise is a violation only for float64 b with "
    "python-scalar parameters (the documented representation) - for any other representation of b or of the parameters the oracle is "
    "'refuses, or returns a point that passes the dense optimality system evaluated with the float64 values' (solved or refused, never "
    "mis-solved); a second solve is only blamed on the history when the same step passes as a first solve on fresh equal objects "
    "(otherwise the first-solve verdict of that step, reported by the cell whose family it belongs to, stands); a first solve in another "
    "representation than float64 b / python scalars that fails is blamed on the representation only when the same values in the documented "
    "representation are solved correctly (otherwise it only counts - the float64 cells report it); ISTA / FISTA runs that "
    "reach maxit (50000 / 200000) only count; a length-n threshold vector with equal entries is used for the parameter-as-array "
    "facet, so the scalar-strength oracle (complete active-set enumeration) applies unchanged",
    "restricted-domain LM cells: a residual that is not finite at a trial point is read as 'the trial point is outside the problem' - "
    "the statement's stationary point must be a point where the sum of squares exists, so a returned x with a non-finite residual "
    "or Jacobian is a violation (nonfinite-result) however the loop ended; a raise is accepted as an explicit refusal only after the "
    "solver has seen a non-finite residual (before that the problem is indistinguishable from a smooth one: violation); "
    "stationarity is demanded relative to the initial gradient (1e-7 ||J0^T r0|| + 1e-10 ||J|| ||r||) only for runs ending before "
    "maxit = 1000; with perturbed data a run that reaches maxit only counts (the decrease of f falls below the rounding of f before a "
    "relative gradient reduction of 1e-9 is reached for a few starts, every further step is rejected and the damping overflows), with "
    "exact data and gradtol 1e-9 reaching maxit is reported (no-convergence): f tends to 0 and its decrease stays resolvable; only the "
    "documented (sparse=True, csr) and (sparse=False, dense) pairs are enumerated for this facet (the other two raise in the base "
    "product already); which starts produce partly / entirely non-finite trial residuals is an observed property of the run, "
    "recorded in the evidence counters, not an input of the enumeration",
]

SHAPES_Q = [(6, 4), (5, 5), (3, 5)]
SHAPES_T = [(6, 4), (5, 5), (3, 5), (8, 6)]
STARTS = ["zero", "ones", "e1", "far"]
BOXES_Q = ["default", "scalar", "vector"]
BOXES_T = ["default", "scalar", "vector", "lower-only", "upper-only", "degenerate"]
L1_Q = [0.25, 1.0, 4.0]
L1_T = [0.0, 0.25, 1.0, 4.0]
MIN_METHODS = [None, "Nelder-Mead", "Powell", "CG", "BFGS", "L-BFGS-B", "TNC", "COBYLA", "SLSQP", "trust-constr"]
# pass-through keyword facet of minimize / maximize with the DEFAULT method=None: SciPy's default rule is "constraints -> SLSQP,
# bounds -> L-BFGS-B, else BFGS", so the alphabet is every keyword that rule looks at (alone and combined) + tol / options
MIN_KWARGS = (["tol", "options", "bounds", "bounds,tol"]
              + [b + c + t for c in ("eq", "ineq") for b in ("", "bounds,") for t in ("", ",tol")])
MIN_METHODS_REP_Q = [None, "Nelder-Mead", "L-BFGS-B", "TNC", "SLSQP"]
# representation of the start vector (facet "rep"): the same start POINT handed over as ...
REPS_Q = ["int64", "float32", "list", "CUQIarray"]
REPS_T = ["int64", "int32", "float32", "list", "intlist", "CUQIarray"]
INT_REPS = ("int64", "int32", "intlist")
# start-vector SCALE facet: start = 2^e x catalogue start (e = 0 is the base product); exact scaling, ||x0|| * tol < 1 throughout
SCALES = [10, 20, 30]
# right-hand-side / solution STRUCTURE facet: b = 0, b exactly orthogonal to range(A) (m > n), b = 2^-40 x catalogue b
BKINDS = ["zero", "orth", "tiny"]
TINY = 2.0 ** -40
# operand-MAGNITUDE facet (CGLS / PCGLS): ONE operand of the problem - the preconditioner P, the operator A or the data b - multiplied
# by 2^e (exact); e = 0 is the base product
OPSCALES = [-30, 30]
# LM on residuals with a RESTRICTED DOMAIN: r_i(x) = phi(x0 + x1 t_i) - y_i, t = -1, -.75, ..., 1, defined where x0 + x1 t_i > 0
DOM_FAMS = ["log", "sqrt", "recip"]                   # phi = log, sqrt, 1/. (positive branch)
DOM_OOB = ["nan", "+inf", "-inf", "nan-all", "inf-all"]   # what the user's residual returns outside the domain
DOM_MAG_Q, DOM_MAG_T = [16, 64], [4, 8, 16, 32, 64]   # start (a, a*rho): every start lies inside the domain (|rho| < 1)
DOM_RHO_Q, DOM_RHO_T = [-0.75, -0.375, 0.0, 0.375, 0.75], [-0.875, -0.75, -0.375, 0.0, 0.375, 0.75, 0.875]
DOM_MAXIT = 1000


# ----------------------------------------------------------------------------------------
# enumeration
# ----------------------------------------------------------------------------------------
def cells(tier, seed):
    k = refs.cat(seed)
    q = tier == "quick"
    shapes = SHAPES_Q if q else SHAPES_T
    out = []
    # CGLS
    for (m, n) in shapes:
        for storage in ("dense", "sparse"):
            for shift in (0.0, 0.5):
                for start in STARTS:
                    out.append({"kind": "cgls", "m": m, "n": n, "storage": storage, "shift": shift, "start": start, "cat": k})
    # exactly-solved start (s0 == 0): degenerate recurrences
    out.append({"kind": "cgls", "m": 6, "n": 4, "storage": "dense", "shift": 0.0, "start": "zero", "cat": k, "b": "zero"})
    out.append({"kind": "cgls", "m": 6, "n": 4, "storage": "dense", "shift": 0.5, "start": "zero", "cat": k, "b": "zero"})
    # PCGLS
    for (m, n) in shapes:
        for storage in ("dense", "sparse"):
            for shift in (0.0, 0.5):
                for P in ("I", "diag", "tridiag", "lowertri"):
                    for pinv in ("explicit", "solve"):
                        for start in (STARTS if not q else ["zero", "ones"]):
                            out.append({"kind": "pcgls", "m": m, "n": n, "storage": storage, "shift": shift, "P": P,
                                        "pinv": pinv, "start": start, "cat": k})
    # FISTA / ISTA
    regs = [("l1", g) for g in (L1_Q if q else L1_T)] + [("nonneg", None)] + [("box", bx) for bx in (BOXES_Q if q else BOXES_T)]
    steps = (0.5, 0.99) if q else (0.25, 0.5, 0.99)
    for (m, n) in shapes:
        for storage in ("dense", "sparse"):
            for start in ("ones", "zero", "far"):
                if q and not ((storage == "dense" and start == "ones") or (m, n) == (6, 4) and start != "far"):
                    continue
                for adaptive in (True, False):
                    for (rk, rp) in regs:
                        for st in steps:
                            out.append({"kind": "fista", "m": m, "n": n, "storage": storage, "start": start,
                                        "adaptive": adaptive, "reg": rk, "regpar": rp, "step": st, "cat": k})
    # LM
    for prob in ("expfit", "rosenbrock", "quadpert", "smalldecay"):
        for sparse_flag in (True, False):
            for jtype in ("csr", "dense"):
                for start in (0, 1):
                    for gradtol in ("reachable", "below-roundoff"):
                        out.append({"kind": "lm", "prob": prob, "sparse": sparse_flag, "jtype": jtype, "start": start,
                                    "gradtol": gradtol, "cat": k})
    out.append({"kind": "lm", "prob": "explicit", "sparse": False, "jtype": "dense", "start": 0, "cat": k})
    out.append({"kind": "lm", "prob": "explicit", "sparse": False, "jtype": "dense", "start": 1, "cat": k})
    out.extend(_domain_cells(q, k))
    # wrappers
    for grad in (True, False):
        for kw in ("none", "bounds", "maxiter1", "maxfun3"):
            out.append({"kind": "lbfgsb", "n": 3, "grad": grad, "kw": kw, "cat": k})
    for method in MIN_METHODS:
        for grad in (True, False):
            for x0type in ("ndarray", "CUQIarray"):
                for which in ("minimize", "maximize"):
                    out.append({"kind": "minimize", "which": which, "method": method, "grad": grad, "x0type": x0type,
                                "n": 2 if method in ("Nelder-Mead", "Powell", "COBYLA") else 3, "cat": k})
    # pass-through keyword facet: method=None (SciPy's OWN default rule decides) x every keyword that rule depends on
    for kw in MIN_KWARGS:
        for grad in (True, False):
            for which in ("minimize", "maximize"):
                out.append({"kind": "minimize", "which": which, "method": None, "grad": grad, "x0type": "ndarray", "kw": kw, "n": 3, "cat": k})
    for method in ("trf", "dogbox", "lm"):
        for loss in ("linear", "soft_l1"):
            for jac in (True, False):
                for x0type in ("ndarray", "CUQIarray"):
                    out.append({"kind": "ls", "method": method, "loss": loss, "jac": jac, "x0type": x0type, "cat": k})
    # ---- start-vector representation facet: the same start point as integer / float32 array, list, CUQIarray ----
    reps = REPS_Q if q else REPS_T
    for rep in reps:
        vals = ("zero", "ints") if rep in INT_REPS else ("zero", "ints", "far")
        for (m, n) in shapes:
            for storage in (("dense",) if q else ("dense", "sparse")):
                for shift in (0.0, 0.5):
                    for start in vals:
                        out.append({"kind": "cgls", "m": m, "n": n, "storage": storage, "shift": shift, "start": start,
                                    "rep": rep, "cat": k})
                        for P in (("lowertri",) if q else ("I", "diag", "tridiag", "lowertri")):
                            for pinv in ("explicit", "solve"):
                                out.append({"kind": "pcgls", "m": m, "n": n, "storage": storage, "shift": shift, "P": P,
                                            "pinv": pinv, "start": start, "rep": rep, "cat": k})
        fshapes = [(6, 4)] if q else shapes
        fregs = [("l1", 1.0), ("box", "vector")] if q else [("l1", 0.25), ("l1", 1.0), ("nonneg", None), ("box", "vector"), ("box", "scalar")]
        for (m, n) in fshapes:
            for storage in (("dense",) if q else ("dense", "sparse")):
                for start in (("zero", "ints") if q else vals):
                    for adaptive in (True, False):
                        for (rk, rp) in fregs:
                            out.append({"kind": "fista", "m": m, "n": n, "storage": storage, "start": start, "adaptive": adaptive,
                                        "reg": rk, "regpar": rp, "step": 0.99, "rep": rep, "cat": k})
        for prob in (("expfit", "quadpert") if q else ("expfit", "quadpert", "introsen")):
            for (sparse_flag, jtype) in ((True, "csr"), (False, "dense")):
                for start in (0, 1):
                    out.append({"kind": "lm", "prob": prob, "sparse": sparse_flag, "jtype": jtype, "start": start,
                                "gradtol": "reachable", "rep": rep, "cat": k})
        wvals = ("zero", "ints") if rep in INT_REPS else ("dyadic", "ints")
        for x0val in wvals:
            for grad in (True, False):
                for kw in ("none", "bounds"):
                    out.append({"kind": "lbfgsb", "n": 3, "grad": grad, "kw": kw, "x0type": rep, "x0val": x0val, "cat": k})
            if rep != "CUQIarray":       # CUQIarray starts are part of the base product above
                for method in (MIN_METHODS_REP_Q if q else MIN_METHODS):
                    for grad in ((True,) if q else (True, False)):
                        for which in ("minimize", "maximize"):
                            out.append({"kind": "minimize", "which": which, "method": method, "grad": grad, "x0type": rep, "x0val": x0val,
                                        "n": 2 if method in ("Nelder-Mead", "Powell", "COBYLA") else 3, "cat": k})
        if rep != "CUQIarray":
            for method in ("trf", "dogbox", "lm"):
                for jac in (True, False):
                    for st in (0, 1):
                        out.append({"kind": "ls", "method": method, "loss": "linear", "jac": jac, "x0type": rep, "x0start": st, "cat": k})
    out.extend(_wide_cells(q, shapes, regs, steps, k))
    out.extend(_reuse_cells(q, shapes, k))
    # projections / prox
    ops = [("nonneg", None)] + [("box", bx) for bx in BOXES_T] + [("l1", g) for g in ([0.0] + L1_Q if q else L1_T + [0.5])]
    for d in (1, 2, 3):
        for (ok, op) in ops:
            out.append({"kind": "prox", "op": ok, "par": op, "d": d, "fine": not q, "cat": k})
            # parameter-representation facet: threshold as a length-d array, scalar bounds as 0-d arrays
            if ok == "l1" or (ok == "box" and op not in ("default", "vector")):
                out.append({"kind": "prox", "op": ok, "par": op, "d": d, "fine": not q, "parrep": "array", "cat": k})
    return out


def _domain_cells(q, k):
    """LM cells of the RESTRICTED-DOMAIN facet: residual family x data (exact / noisy) x out-of-domain convention x documented
    (sparse flag, Jacobian type) x the complete lattice of in-domain starts (a, a rho) [x gradtol, thorough]."""
    out = []
    mags, rhos = (DOM_MAG_Q, DOM_RHO_Q) if q else (DOM_MAG_T, DOM_RHO_T)
    for fam in DOM_FAMS:
        for ydata in ("exact", "noisy"):
            for oob in DOM_OOB:
                for (sparse_flag, jtype) in ((True, "csr"), (False, "dense")):
                    for a in mags:
                        for rho in rhos:
                            gts = ("reachable",) if (q or a not in DOM_MAG_Q or rho not in DOM_RHO_Q) else ("reachable", "below-roundoff")
                            for gradtol in gts:
                                out.append({"kind": "lm", "prob": "domain", "fam": fam, "ydata": ydata, "oob": oob, "sparse": sparse_flag,
                                            "jtype": jtype, "mag": a, "rho": rho, "gradtol": gradtol, "cat": k})
    return out


def _wide_cells(q, shapes, regs, steps, k):
    """Cells of the start-vector SCALE facet and of the right-hand-side / solution STRUCTURE facet (all iterative solvers)."""
    out = []
    storages = ("dense",) if q else ("dense", "sparse")
    precs = ("I", "lowertri") if q else ("I", "diag", "tridiag", "lowertri")
    if q:       # one regulariser of each family, the box both in its default and in its vector form
        regs = [("l1", 1.0), ("nonneg", None), ("box", "default"), ("box", "vector")]
    # ---- (i) scale of the start vector: 2^e x (ones / e1 / far); the zero start is scale invariant (base product)
    for e in SCALES:
        for (m, n) in shapes:
            for storage in storages:
                for shift in (0.0, 0.5):
                    for start in ("ones", "e1", "far"):
                        out.append({"kind": "cgls", "m": m, "n": n, "storage": storage, "shift": shift, "start": start,
                                    "scale": e, "facet": "x0-scale", "cat": k})
                    for P in precs:
                        for pinv in ("explicit", "solve"):
                            for start in (("ones", "far") if q else ("ones", "e1", "far")):
                                out.append({"kind": "pcgls", "m": m, "n": n, "storage": storage, "shift": shift, "P": P,
                                            "pinv": pinv, "start": start, "scale": e, "facet": "x0-scale", "cat": k})
        for (m, n) in shapes:
            for adaptive in (False, True):
                # ISTA converges linearly on the strictly convex (m >= n) problems: every scale; the momentum variant has an
                # O(distance^2 / k^2) bound only: 2^10 (quick), 2^10 and 2^20 (thorough); under-determined shape: ISTA 2^10, thorough
                if m >= n:
                    if adaptive and (e > (10 if q else 20) or (q and (m, n) != (6, 4))):
                        continue
                elif q or adaptive or e > 10:
                    continue
                slim = q or adaptive or m < n          # the expensive runs: dense storage and the largest step only
                for storage in (("dense",) if slim else storages):
                    for start in (("ones",) if (q and adaptive) else ("ones", "far")):
                        for (rk, rp) in regs:
                            for st in ((0.99,) if slim else steps):
                                out.append({"kind": "fista", "m": m, "n": n, "storage": storage, "start": start, "adaptive": adaptive,
                                            "reg": rk, "regpar": rp, "step": st, "scale": e, "facet": "x0-scale", "cat": k})
        # (smalldecay: every scaled start has an underflowing, rank-deficient Jacobian - outside the regular domain)
        for prob in ("expfit", "rosenbrock", "quadpert"):
            for (sparse_flag, jtype) in ((True, "csr"), (False, "dense")):
                for start in (0, 1):
                    out.append({"kind": "lm", "prob": prob, "sparse": sparse_flag, "jtype": jtype, "start": start,
                                "gradtol": "reachable", "scale": e, "facet": "x0-scale", "cat": k})
    # ---- (ii) structure of the right-hand side / of the solution, from zero and non-zero starts
    for (m, n) in shapes:
        for bk in BKINDS:
            if bk == "orth" and m <= n:
                continue
            for storage in storages:
                for shift in (0.0, 0.5):
                    for start in ("zero", "ones", "far"):
                        out.append({"kind": "cgls", "m": m, "n": n, "storage": storage, "shift": shift, "start": start,
                                    "b": bk, "facet": "rhs-structure", "cat": k})
                        for P in precs:
                            for pinv in ("explicit", "solve"):
                                out.append({"kind": "pcgls", "m": m, "n": n, "storage": storage, "shift": shift, "P": P,
                                            "pinv": pinv, "start": start, "b": bk, "facet": "rhs-structure", "cat": k})
            if q and (m, n) not in ((6, 4), (3, 5)):
                continue
            for storage in storages:
                for start in (("zero", "ones") if (q and m < n) else ("zero", "ones", "far")):
                    for adaptive in (True, False):
                        for (rk, rp) in regs:
                            out.append({"kind": "fista", "m": m, "n": n, "storage": storage, "start": start, "adaptive": adaptive,
                                        "reg": rk, "regpar": rp, "step": 0.99, "b": bk, "facet": "rhs-structure", "cat": k})
    # ---- (iii) magnitude of ONE operand: P, A or b times 2^e (the other operands as in the catalogue), zero and non-zero start
    for (m, n) in shapes:
        for storage in storages:
            for shift in (0.0, 0.5):
                for operand in ("A", "b", "P"):
                    for e in OPSCALES:
                        if operand == "A" and m < n and shift > 0 and e > 0:
                            continue        # cond(2^60 A^T A + s I) ~ 2^60 / s on the null space of A: not a well-conditioned problem
                        for start in ("zero", "ones"):
                            if operand != "P":
                                out.append({"kind": "cgls", "m": m, "n": n, "storage": storage, "shift": shift, "start": start,
                                            "operand": operand, "opscale": e, "facet": "scale-of-" + operand, "cat": k})
                            for P in precs:
                                for pinv in ("explicit", "solve"):
                                    out.append({"kind": "pcgls", "m": m, "n": n, "storage": storage, "shift": shift, "P": P,
                                                "pinv": pinv, "start": start, "operand": operand, "opscale": e,
                                                "facet": "scale-of-" + operand, "cat": k})
    for (prob, datas) in (("quadpert", BKINDS), ("expfit", ("zero", "tiny"))):
        for data in datas:
            for (sparse_flag, jtype) in ((True, "csr"), (False, "dense")):
                for start in (0, 1):
                    out.append({"kind": "lm", "prob": prob, "sparse": sparse_flag, "jtype": jtype, "start": start,
                                "gradtol": "reachable", "data": data, "facet": "rhs-structure", "cat": k})
    return out


# ----------------------------------------------------------------------------------------
# shared problem data
# ----------------------------------------------------------------------------------------
def _left_null(A):
    """A vector b with A^T b = 0 EXACTLY (A: m x n, m > n, dyadic entries): rational Gauss-Jordan elimination on A^T, free
    unknowns set to 1, -2, 3, ..., scaled to coprime integers and then by a power of two into [-1, 1] - all entries are
    dyadic and small, so the floating-point product A^T b is exactly the zero vector."""
    from fractions import Fraction
    from math import gcd
    m, n = A.shape
    M = [[Fraction(float(A[i, j])) for i in range(m)] for j in range(n)]
    piv, r = [], 0
    for c in range(m):
        p = next((i for i in range(r, n) if M[i][c] != 0), None)
        if p is None:
            continue
        M[r], M[p] = M[p], M[r]
        M[r] = [v / M[r][c] for v in M[r]]
        for i in range(n):
            if i != r and M[i][c] != 0:
                f = M[i][c]
                M[i] = [a - f * bb for a, bb in zip(M[i], M[r])]
        piv.append(c)
        r += 1
        if r == n:
            break
    free = [c for c in range(m) if c not in piv]
    v = [Fraction(0)] * m
    for j, c in enumerate(free):
        v[c] = Fraction((j + 1) * (-1) ** j)
    for i, c in enumerate(piv):
        v[c] = -sum(M[i][f] * v[f] for f in free)
    den = 1
    for t in v:
        den = den * t.denominator // gcd(den, t.denominator)
    iv = [int(t * den) for t in v]
    g = 0
    for t in iv:
        g = gcd(g, abs(t))
    iv = [t // g for t in iv]
    e = 0
    while 2 ** e < max(abs(t) for t in iv):
        e += 1
    b = np.array(iv, dtype=float) / 2.0 ** e
    if np.any(A.T @ b != 0.0):
        raise ValueError("left null vector not exact in floating point")
    return b


def _rhs(A, b, kind):
    """Right-hand side of the structure facet."""
    if kind in (None, "cat"):
        return b
    if kind == "zero":
        return np.zeros(len(b))
    if kind == "tiny":
        return b * TINY
    if kind == "orth":
        return _left_null(A)
    raise ValueError(kind)


def _problem(cell):
    m, n, k = cell["m"], cell["n"], cell["cat"]
    A = refs.full_matrix(m, n, k)
    b = _rhs(A, refs.dyadic_vec(m, k + 1), cell.get("b"))
    if cell.get("operand") == "A":          # operand-magnitude facet: exact scaling by a power of two
        A = A * 2.0 ** cell["opscale"]
    elif cell.get("operand") == "b":
        b = b * 2.0 ** cell["opscale"]
    return A, b


def _cell_P(cell, n, k):
    """Preconditioner of a cell: catalogue preconditioner, times 2^opscale (exact) in the cells of the operand-magnitude facet."""
    Pm = _P(cell["P"], n, k)
    if cell.get("operand") == "P":
        Pm = (Pm * 2.0 ** cell["opscale"]).tocsc()
    return Pm


def _cell_start(cell, n, k):
    """Start vector of a cell: catalogue start times 2^scale (exact)."""
    return _start(cell["start"], n, k) * 2.0 ** cell.get("scale", 0)


def _start(name, n, k):
    if name == "zero":
        return np.zeros(n)
    if name == "ones":
        return np.ones(n)
    if name == "e1":
        e = np.zeros(n)
        e[0] = 1.0
        return e
    if name == "far":
        return 25.0 * refs.dyadic_vec(n, k + 2)
    if name == "ints":          # integer-valued, mixed signs, one zero entry
        return np.array([1.0, -2.0, 0.0, 3.0, -1.0, 2.0, -3.0, 1.0])[:n] * (1 + k % 2)
    raise ValueError(name)


def _as_rep(v, rep):
    """The start point v (float64 array) in representation `rep`; every value used is exactly representable."""
    v = np.asarray(v, float)
    if rep in ("float64", "ndarray"):
        out = v.copy()
    elif rep == "int64":
        out = v.astype(np.int64)
    elif rep == "int32":
        out = v.astype(np.int32)
    elif rep == "float32":
        out = v.astype(np.float32)
    elif rep == "list":
        out = [float(t) for t in v]
    elif rep == "intlist":
        out = [int(t) for t in v]
    elif rep == "CUQIarray":
        import cuqi
        out = cuqi.array.CUQIarray(v.copy(), geometry=cuqi.geometry.Continuous1D(len(v)))
    else:
        raise ValueError(rep)
    if not np.array_equal(np.asarray(out, dtype=float), v):
        raise ValueError("start value %s not exactly representable as %s" % (v.tolist(), rep))
    return out


def _rep_class(rep):
    return {"int64": "integer-array", "int32": "integer-array", "intlist": "list", "list": "list", "float32": "float32",
            "CUQIarray": "CUQIarray"}.get(rep, rep)


def _may_refuse(rep):
    """The documented start type is ndarray: every ndarray (any real dtype, CUQIarray included) is a start point the
    statement quantifies over; a loud refusal is accepted only for plain lists."""
    return rep in ("list", "intlist")


def _start_unchanged(obj, v, rep):
    """The caller's start object still is what was handed over (type, dtype and values)."""
    try:
        if rep in ("list", "intlist"):
            return isinstance(obj, list) and [type(t) for t in obj] == [float if rep == "list" else int] * len(v) \
                and [float(t) for t in obj] == [float(t) for t in v]
        want = _as_rep(v, rep)
        return type(obj) is type(want) and obj.dtype == want.dtype and obj.shape == want.shape \
            and np.array_equal(np.asarray(obj), np.asarray(want))
    except Exception:
        return False


def _store(A, storage):
    if storage == "sparse":
        import scipy.sparse as sp
        return sp.csr_matrix(A)
    return A.copy()


def _funform(Aop):
    def fun(x, flag):
        if flag == 1:
            return Aop @ x
        if flag == 2:
            return Aop.T @ x
        raise ValueError("flag")
    return fun


# ----------------------------------------------------------------------------------------
# integrity of the caller's argument objects
# ----------------------------------------------------------------------------------------
def _fp(obj):
    """Fingerprint (type, dtype, shape, BYTES) of an array-like argument object; None / scalars / lists included."""
    import scipy.sparse as sp
    try:
        if obj is None:
            return ("None",)
        if sp.issparse(obj):
            parts = [type(obj).__name__, str(obj.dtype), tuple(obj.shape)]
            for att in ("data", "indices", "indptr", "row", "col", "offsets"):
                if hasattr(obj, att):
                    v = np.asarray(getattr(obj, att))
                    parts.append((att, v.dtype.str, v.shape, np.ascontiguousarray(v).tobytes()))
            return tuple(parts)
        if isinstance(obj, np.ndarray):
            v = np.asarray(obj)
            return (type(obj).__name__, v.dtype.str, v.shape, np.ascontiguousarray(v).tobytes())
        if isinstance(obj, np.generic):
            return (type(obj).__name__, obj.tobytes())
        if isinstance(obj, (list, tuple)):
            return (type(obj).__name__,) + tuple(_fp(t) for t in obj)
        return (type(obj).__name__, repr(obj))
    except Exception as e:      # an argument object that can no longer be read is an altered one
        return ("unreadable", type(e).__name__)


class _Guard:
    """Byte snapshot of the argument objects handed to a solver (callables are skipped); altered() names the ones whose type,
    dtype, shape or bytes differ afterwards."""

    def __init__(self, **named):
        self.named = {k: v for k, v in named.items() if not callable(v)}
        self.snap = {k: _fp(v) for k, v in self.named.items()}

    def altered(self):
        return [k for k in sorted(self.named) if _fp(self.named[k]) != self.snap[k]]


def _flag_altered(res, comp, guard, what="", seen=None):
    """One violation `C16|<component>|argument-altered|arg=<name>` per argument object that solve() / the operator changed."""
    res.evaluations += 1
    for nm in guard.altered():
        sig = "C16|%s|argument-altered|arg=%s" % (comp, nm)
        if seen is not None:
            if sig in seen:
                continue
            seen.add(sig)
        res.fail(sig, "the caller's argument object `%s` was modified%s: its bytes / dtype / shape differ from the snapshot "
                 "taken before the call" % (nm, (" (" + what + ")") if what else ""))


def _P(name, n, k):
    import scipy.sparse as sp
    if name == "I":
        return sp.identity(n, format="csc")
    if name == "diag":
        return sp.diags(1.0 + 0.5 * np.arange(n) + 0.25 * k, format="csc")
    if name == "lowertri":      # non-symmetric (a Cholesky-factor-like preconditioner): P^{-T} != P^{-1}
        return sp.csc_matrix(np.diag(2.0 + 0.25 * np.arange(n)) + np.diag(-0.5 * np.ones(n - 1) - 0.125 * k, -1))
    T = 2.5 * np.eye(n) + np.diag(-0.75 * np.ones(n - 1), 1) + np.diag(-0.75 * np.ones(n - 1), -1) + np.diag(0.25 * np.arange(n))
    return sp.csc_matrix(T)


def _shape_class(m, n):
    return "over" if m > n else ("square" if m == n else "under")


# ----------------------------------------------------------------------------------------
# CGLS / PCGLS
# ----------------------------------------------------------------------------------------
def _eval_cg(cell, res):
    import cuqi
    from cuqi.solver._solver import CGLS, PCGLS
    if cell.get("facet"):
        _eval_cg_wide(cell, res)
        return
    A, b = _problem(cell)
    m, n, k = cell["m"], cell["n"], cell["cat"]
    shift = cell["shift"]
    kind = cell["kind"]
    name = "CGLS" if kind == "cgls" else "PCGLS"
    x0 = _start(cell["start"], n, k)
    maxit, tol = 400, 1e-12
    H = A.T @ A + shift * np.eye(n)
    rhs = A.T @ b
    nonsing = (m >= n) or shift > 0
    xref = np.linalg.solve(H, rhs) if nonsing else None
    scale = max(1.0, float(np.linalg.norm(rhs)))
    sfac = "shift=0" if shift == 0 else "shift>0"
    base = sfac if kind == "cgls" else "%s,pinv=%s" % (sfac, cell["pinv"])
    sols = {}
    badforms = {}
    noconv = {}
    old = cuqi.config.MAX_DIM_INV
    try:
        if kind == "pcgls" and cell["pinv"] == "solve":
            cuqi.config.MAX_DIM_INV = 1     # configuration facet: dimension above the explicit-inverse threshold
        if cell.get("rep", "float64") != "float64":
            _eval_cg_rep(cell, res, A, b, x0, H, rhs, xref, scale, maxit, tol)
            return
        for form in ("matrix", "function"):
            Aop = _store(A, cell["storage"])
            op = Aop if form == "matrix" else _funform(Aop)
            x0c = x0.copy()
            bc = b.copy()
            Pm = _P(cell["P"], n, k) if kind == "pcgls" else None
            guard = _Guard(A=Aop, b=bc, P=Pm)
            res.state("%s:%s" % (form, cell["start"]))
            try:
                if kind == "cgls":
                    x, it = CGLS(op, bc, x0c, maxit, tol, shift).solve()
                else:
                    x, it = PCGLS(op, bc, x0c, Pm, maxit, tol, shift).solve()
            except Exception as e:
                res.refused += 1
                res.outcomes.add("raises:" + type(e).__name__)
                res.fail("C16|%s|raises|%s,form=%s" % (name, base, form), "solver raised %r on a documented input" % (e,))
                _flag_altered(res, name, guard, "%s form, start %s" % (form, cell["start"]))
                continue
            _flag_altered(res, name, guard, "%s form, start %s" % (form, cell["start"]))
            res.transitions += int(it)
            res.evaluations += 1
            x = np.asarray(x, float).ravel()
            sols[form] = x
            if not close(x0c, x0, 1e-15):
                res.fail("C16|%s|start-vector-altered|%s" % (name, base), "x0 was modified in place")
            if it >= maxit:
                # conjugate gradients terminate in <= n steps in exact arithmetic; 400 >= 50 n iterations without meeting
                # the solver's own stopping rule on a cond < 10 problem means it does not converge "from any starting point"
                res.count("maxit-reached")
                res.outcomes.add("maxit")
                noconv[form] = ("did not meet its own stopping rule (tol=%g) within %d iterations on a %dx%d problem with cond(A) < 10"
                                % (tol, maxit, m, n), x)
                continue
            res.count("converged")
            r = A.T @ (b - A @ x) - shift * x
            rn = float(np.linalg.norm(r))
            res.outcomes.add("%s:%s:it=%d" % (form, _shape_class(m, n), it))
            bad = (not np.all(np.isfinite(x))) or rn > 1e-7 * max(scale, float(np.linalg.norm(H @ x)))
            if xref is not None and not bad:
                bad = not close(x, xref, 1e-7)
            if bad:
                badforms[form] = ("stopped after %d<maxit iterations but ||A^T(b-Ax)-s x|| = %.3g (scale %.3g); x=%s, dense solution=%s"
                                  % (it, rn, scale, np.round(x, 6).tolist(), None if xref is None else np.round(xref, 6).tolist()), x)
        if noconv:
            fac = base if len(noconv) == 2 else "%s,form=%s" % (base, sorted(noconv)[0])
            f0 = sorted(noconv)[0]
            res.fail("C16|%s|no-convergence|%s" % (name, fac), noconv[f0][0], x=noconv[f0][1], forms=sorted(noconv))
        if badforms:
            # both forms wrong = one defect of the recurrences; a single form wrong = a defect of that operator path
            fac = base if len(badforms) == 2 else "%s,form=%s" % (base, sorted(badforms)[0])
            f0 = sorted(badforms)[0]
            res.fail("C16|%s|normal-equations|%s" % (name, fac), badforms[f0][0], x=badforms[f0][1], xref=xref, shift=shift,
                     forms=sorted(badforms))
        if len(sols) == 2:
            res.evaluations += 1
            if not close(sols["matrix"], sols["function"], 1e-9):
                res.fail("C16|%s|matrix-vs-function|%s" % (name, base), "matrix form and function form return different points",
                         matrix=sols["matrix"], function=sols["function"])
    finally:
        cuqi.config.MAX_DIM_INV = old
    if res.branches.get("converged", 0) == 0:
        res.nontrivial = False
    if "matrix" in sols:
        res.sample = {"x": sols["matrix"], "dense_reference": xref}


def _eval_cg_wide(cell, res):
    """Cells of the start-SCALE facet (start = 2^e x catalogue start) and of the right-hand-side STRUCTURE facet (b = 0,
    b exactly orthogonal to range(A), b = 2^-40 x catalogue b; zero and non-zero starts); both operator forms.

    Oracle (independent dense optimality system, scale aware): the solver returns (a raise is a violation - the statement
    promises the solution "from any starting point" and every input here is a legal float64 ndarray problem), meets its own
    stopping rule within maxit unless the start already solves the system to rounding, and the returned point satisfies
        ||A^T(b-Ax) - s x||  <=  1e-7 max(||A^T b||, ||Hx||)  +  10 tol ||P|| ||P^-T s0||  +  1e3 eps (||H|| ||x0|| + ||A^T b||)
    i.e. the usual 1e-7 relative demand plus what the stopping rule (relative to the INITIAL preconditioned normal residual
    s0 = A^T(b-Ax0) - s x0, computed densely here) and double-precision storage of the start allow; the distance to the dense
    solution of H x = A^T b is bounded by ||H^-1|| times that; the two operator forms agree."""
    import cuqi
    from cuqi.solver._solver import CGLS, PCGLS
    A, b = _problem(cell)
    m, n, k = cell["m"], cell["n"], cell["cat"]
    shift, kind, fac = cell["shift"], cell["kind"], cell["facet"]
    name = "CGLS" if kind == "cgls" else "PCGLS"
    x0 = _cell_start(cell, n, k)
    maxit, tol = 400, 1e-12
    eps = float(np.finfo(float).eps)
    H = A.T @ A + shift * np.eye(n)
    rhs = A.T @ b
    s0 = rhs - H @ x0
    if kind == "pcgls":
        Pd = np.asarray(_cell_P(cell, n, k).todense(), float)
        ns0 = float(np.linalg.norm(np.linalg.solve(Pd.T, s0)))
        amp = float(np.linalg.norm(Pd, 2))        # ||s|| <= ||P^T|| ||P^-T s||
    else:
        ns0, amp = float(np.linalg.norm(s0)), 1.0
    sv = np.linalg.svd(H, compute_uv=False)
    nonsing = (m >= n) or shift > 0
    xref = np.linalg.solve(H, rhs) if nonsing else None
    fpfloor = 1e3 * eps * (float(sv[0]) * float(np.linalg.norm(x0)) + float(np.linalg.norm(rhs)))
    stopb = 10 * tol * amp * ns0
    already = ns0 <= fpfloor            # the start solves the system to rounding: a relative stopping rule cannot be demanded
    if fac == "x0-scale":
        tag = "2^%d" % cell["scale"]
    elif fac == "rhs-structure":
        tag = "b=%s" % cell["b"]
    else:
        tag = "%s*2^%d" % (cell["operand"], cell["opscale"])
    sols, bad, noconv = {}, {}, {}
    old = cuqi.config.MAX_DIM_INV
    try:
        if kind == "pcgls" and cell["pinv"] == "solve":
            cuqi.config.MAX_DIM_INV = 1
        for form in ("matrix", "function"):
            Aop = _store(A, cell["storage"])
            op = Aop if form == "matrix" else _funform(Aop)
            x0c = x0.copy()
            bc = b.copy()
            Pm = _cell_P(cell, n, k) if kind == "pcgls" else None
            guard = _Guard(A=Aop, b=bc, P=Pm)
            res.state("%s:%s:%s" % (form, cell["start"], tag))
            try:
                if kind == "cgls":
                    x, it = CGLS(op, bc, x0c, maxit, tol, shift).solve()
                else:
                    x, it = PCGLS(op, bc, x0c, Pm, maxit, tol, shift).solve()
                x = np.asarray(x, float).ravel()
                it = int(it)
                if x.shape != (n,):
                    raise ValueError("returned point has shape %s" % (x.shape,))
            except Exception as e:
                res.refused += 1
                res.outcomes.add("raises:" + type(e).__name__)
                res.fail("C16|%s|raises|%s" % (name, fac), "solver raised %r on a legal problem (%s, start %s, shift %g, %s form): the "
                         "statement promises the solution from any starting point" % (e, tag, cell["start"], shift, form))
                _flag_altered(res, name, guard, "%s, %s form, start %s" % (tag, form, cell["start"]))
                continue
            _flag_altered(res, name, guard, "%s, %s form, start %s" % (tag, form, cell["start"]))
            res.transitions += it
            res.evaluations += 1
            sols[form] = x
            if not np.array_equal(x0c, x0):
                res.fail("C16|%s|start-vector-altered|%s" % (name, fac), "x0 was modified in place")
            if it >= maxit:
                res.count("maxit-reached")
                res.outcomes.add("maxit")
                if not already:
                    noconv[form] = ("did not meet its own stopping rule (tol=%g) within %d iterations on a %dx%d problem with "
                                    "cond(A) < 10 (%s, start %s)" % (tol, maxit, m, n, tag, cell["start"]), x)
                    continue
            else:
                res.count("converged")
            res.outcomes.add("%s:%s:%s:it=%d" % (form, _shape_class(m, n), tag, it))
            finite = bool(np.all(np.isfinite(x)))
            rn = float(np.linalg.norm(rhs - H @ x)) if finite else float("inf")
            bound = 1e-7 * max(float(np.linalg.norm(rhs)), float(np.linalg.norm(H @ x)) if finite else 0.0) + stopb + fpfloor
            why = None
            if not rn <= bound:
                why = ("||A^T(b-Ax)-s x|| = %.3g > %.3g (1e-7 relative + 10 tol x initial normal residual %.3g + rounding floor %.3g)"
                       % (rn, bound, ns0, fpfloor))
            elif xref is not None and not float(np.linalg.norm(x - xref)) <= 2 * bound / float(sv[-1]) + 1e-12 * float(np.linalg.norm(xref)):
                why = ("distance %.3g to the dense solution of the normal equations exceeds ||H^-1|| x residual bound %.3g"
                       % (float(np.linalg.norm(x - xref)), 2 * bound / float(sv[-1])))
            if why:
                bad[form] = ("%s, start %s: stopped after %d iterations but %s; x=%s, dense solution=%s"
                             % (tag, cell["start"], it, why, x.tolist(), None if xref is None else xref.tolist()), x)
        if noconv:
            f0 = sorted(noconv)[0]
            res.fail("C16|%s|no-convergence|%s" % (name, fac), noconv[f0][0], x=noconv[f0][1], forms=sorted(noconv))
        if bad:
            f0 = sorted(bad)[0]
            res.fail("C16|%s|normal-equations|%s" % (name, fac), bad[f0][0], x=bad[f0][1], xref=xref, shift=shift, forms=sorted(bad))
        if len(sols) == 2:
            res.evaluations += 1
            xm, xf = sols["matrix"], sols["function"]
            if not np.array_equal(xm, xf, equal_nan=True):
                with np.errstate(all="ignore"):
                    d = float(np.max(np.abs(xm - xf)))
                    lim = 1e-9 * max(float(np.max(np.abs(xm))), float(np.max(np.abs(xf)))) + 1e3 * eps * float(np.linalg.norm(x0))
                if not d <= lim:
                    res.fail("C16|%s|matrix-vs-function|%s" % (name, fac), "matrix form and function form return different points "
                             "(max difference %.3g)" % d, matrix=xm, function=xf)
    finally:
        cuqi.config.MAX_DIM_INV = old
    if res.branches.get("converged", 0) == 0:
        res.nontrivial = False
    if "matrix" in sols:
        res.sample = {"x0_norm": float(np.linalg.norm(x0)), "x": sols["matrix"], "dense_reference": xref,
                      "initial_normal_residual": ns0}


def _eval_cg_rep(cell, res, A, b, x0, H, rhs, xref, scale, maxit, tol):
    """Start-representation cell: the start point x0 handed over as `rep`; both operator forms.  Oracle: raises (where a
    refusal is acceptable), or the returned point solves the dense normal equations, agrees with the float64-start run of the
    same configuration and is reached by the solver's own stopping rule whenever the float64-start run is; the caller's
    start object is left untouched."""
    from cuqi.solver._solver import CGLS, PCGLS
    m, n, k = cell["m"], cell["n"], cell["cat"]
    shift, kind, rep = cell["shift"], cell["kind"], cell["rep"]
    name = "CGLS" if kind == "cgls" else "PCGLS"
    rc = _rep_class(rep)

    def run(op, start, Aobj=None):
        bc = b.copy()
        Pm = _P(cell["P"], n, k) if kind == "pcgls" else None
        guard = _Guard(A=Aobj, b=bc, P=Pm)
        try:
            if kind == "cgls":
                return CGLS(op, bc, start, maxit, tol, shift).solve()
            return PCGLS(op, bc, start, Pm, maxit, tol, shift).solve()
        finally:
            if Aobj is not None:
                _flag_altered(res, name, guard, "%s start" % rep)

    bad = {}
    for form in ("matrix", "function"):
        Aop = _store(A, cell["storage"])
        op = Aop if form == "matrix" else _funform(Aop)
        res.state("%s:%s:%s" % (form, cell["start"], rep))
        try:
            x64, it64 = run(op, x0.copy())
            x64 = np.asarray(x64, float).ravel()
            r64 = float(np.linalg.norm(A.T @ (b - A @ x64) - shift * x64))
            ok64 = it64 < maxit and np.all(np.isfinite(x64)) and r64 <= 1e-7 * max(scale, float(np.linalg.norm(H @ x64)))
        except Exception:
            ok64 = False
        if not ok64:
            res.count("float64-start-run-not-usable")     # not a representation matter; the float64 cells report it
            continue
        xobj = _as_rep(x0, rep)
        try:
            x, it = run(op, xobj, Aop)
        except Exception as e:
            res.refused += 1
            res.outcomes.add("%s:raises:%s" % (rc, type(e).__name__))
            if not _may_refuse(rep):
                res.fail("C16|%s|raises|x0=%s" % (name, rc), "solver raised %r for a %s start vector" % (e, rep))
            continue
        res.transitions += int(it)
        res.evaluations += 3
        if not _start_unchanged(xobj, x0, rep):
            res.fail("C16|%s|start-vector-altered|x0=%s" % (name, rc), "the caller's start vector was modified by solve()", form=form)
        try:
            xa = np.asarray(x, float).ravel()
            if xa.shape != (n,):
                raise ValueError("shape %s" % (xa.shape,))
        except Exception as e:
            bad[form] = ("returned object unusable as a vector: %r" % (e,), None)
            continue
        res.count("returned")
        res.outcomes.add("%s:%s:%s:it=%d(float64 start: %d):%s" % (form, _shape_class(m, n), rc, it, it64, np.asarray(x).dtype))
        rn = float(np.linalg.norm(A.T @ (b - A @ xa) - shift * xa)) if np.all(np.isfinite(xa)) else float("inf")
        why = None
        if it >= maxit:
            why = ("stopping rule (tol=%g) not met within %d iterations; from the float64 representation of the same point it is "
                   "met after %d" % (tol, maxit, it64))
        elif not rn <= 1e-7 * max(scale, float(np.linalg.norm(H @ xa))):
            why = "stopped after %d<maxit iterations but ||A^T(b-Ax)-s x|| = %.3g (float64 start: %.3g, scale %.3g)" % (it, rn, r64, scale)
        elif xref is not None and not close(xa, xref, 1e-7):
            why = "returned point differs from the dense solution of the normal equations"
        elif not close(xa, x64, 1e-7):
            why = "returned point differs from the one reached from the float64 representation of the same start point"
        if why:
            bad[form] = (why, xa)
    if bad:
        f0 = sorted(bad)[0]
        res.fail("C16|%s|start-representation|x0=%s" % (name, rc), "%s start %s: %s" % (rep, cell["start"], bad[f0][0]),
                 x=bad[f0][1], xref=xref, forms=sorted(bad))
    if res.branches.get("returned", 0) == 0:
        res.nontrivial = False


# ----------------------------------------------------------------------------------------
# FISTA / ISTA
# ----------------------------------------------------------------------------------------
def _box(name, n):
    """(lower_arg, upper_arg, lower_vec, upper_vec): arguments as passed + the documented meaning."""
    lo_v = np.array([-1.0, 0.0, -0.5, -0.25, 0.25, -0.75, 0.0, -1.0])[:n]
    up_v = np.array([0.5, 0.25, 1.0, 0.0, 0.75, 0.5, 1.0, -0.5])[:n]
    if name == "default":
        return None, None, np.zeros(n), np.ones(n)
    if name == "scalar":
        return -0.5, 0.75, -0.5 * np.ones(n), 0.75 * np.ones(n)
    if name == "vector":        # the objects handed to the library are copies: the oracle keeps the pristine ones
        return lo_v.copy(), up_v.copy(), lo_v, up_v
    if name == "lower-only":
        return -1.0, None, -np.ones(n), np.ones(n)
    if name == "upper-only":
        return None, 0.5, np.zeros(n), 0.5 * np.ones(n)
    if name == "degenerate":
        return 0.25, 0.25, 0.25 * np.ones(n), 0.25 * np.ones(n)
    raise ValueError(name)


def _ref_soft(z, g):
    """Soft-thresholding written out coordinate by coordinate."""
    out = np.zeros(len(z))
    for i, v in enumerate(z):
        if v > g:
            out[i] = v - g
        elif v < -g:
            out[i] = v + g
        else:
            out[i] = 0.0
    return out


def _ref_clip(z, lo, up):
    out = np.zeros(len(z))
    for i, v in enumerate(z):
        if v < lo[i]:
            out[i] = lo[i]
        elif v > up[i]:
            out[i] = up[i]
        else:
            out[i] = v
    return out


def _exact_min(A, b, reg, lam, lo, up):
    """Exact minimiser of 1/2||Ax-b||^2 + reg by complete enumeration of active sets; returns (x, F)."""
    m, n = A.shape
    G, c = A.T @ A, A.T @ b
    best = None

    def F(x):
        v = 0.5 * float(np.sum((A @ x - b) ** 2))
        return v + (lam * float(np.sum(np.abs(x))) if reg == "l1" else 0.0)

    if reg == "l1":
        alphabet = (-1, 0, 1)
    else:
        alphabet = (-1, 0, 1)    # at lower / free / at upper
    for pat in itertools.product(alphabet, repeat=n):
        pat = np.array(pat)
        x = np.zeros(n)
        if reg == "l1":
            S = np.where(pat != 0)[0]
            if len(S):
                sol = np.linalg.lstsq(G[np.ix_(S, S)], c[S] - lam * pat[S], rcond=None)[0]
                x[S] = sol
                if np.any(np.sign(x[S]) != pat[S]):
                    continue
            g = G @ x - c
            if len(S) and np.max(np.abs(g[S] + lam * pat[S])) > 1e-9:
                continue
            Z = np.where(pat == 0)[0]
            if len(Z) and np.max(np.abs(g[Z])) > lam + 1e-9:
                continue
        else:
            if np.any(~np.isfinite(lo[pat == -1])) or np.any(~np.isfinite(up[pat == 1])):
                continue
            x[pat == -1] = lo[pat == -1]
            x[pat == 1] = up[pat == 1]
            S = np.where(pat == 0)[0]
            Bd = np.where(pat != 0)[0]
            if len(S):
                rr = c[S] - (G[np.ix_(S, Bd)] @ x[Bd] if len(Bd) else 0.0)
                x[S] = np.linalg.lstsq(G[np.ix_(S, S)], rr, rcond=None)[0]
                if np.any(x[S] < lo[S] - 1e-12) or np.any(x[S] > up[S] + 1e-12):
                    continue
            g = G @ x - c
            if len(S) and np.max(np.abs(g[S])) > 1e-9:
                continue
            eq = (lo == up)
            if np.any((g < -1e-9) & (pat == -1) & ~eq) or np.any((g > 1e-9) & (pat == 1) & ~eq):
                continue
        f = F(x)
        if best is None or f < best[1]:
            best = (x, f)
    return best, F


def _eval_fista(cell, res):
    from cuqi.solver import FISTA, ProximalL1, ProjectNonnegative, ProjectBox
    A, b = _problem(cell)
    m, n, k = cell["m"], cell["n"], cell["cat"]
    reg, rp = cell["reg"], cell["regpar"]
    L = float(np.linalg.svd(A, compute_uv=False)[0] ** 2)
    t = cell["step"] / L
    adaptive = cell["adaptive"]
    abstol = 1e-9 if adaptive else 1e-11
    maxit = 200000
    x0 = _cell_start(cell, n, k)
    lam = 0.0
    lo = up = None
    pargs = {}          # array-like objects handed to the projection at every iteration (guarded)
    if reg == "l1":
        lam = float(rp)
        prox = lambda z, g: ProximalL1(z, lam * g)
        ref_prox = lambda z: _ref_soft(z, lam * t)
        regname = "ProximalL1"
    elif reg == "nonneg":
        prox = lambda z, g: ProjectNonnegative(z)
        lo, up = np.zeros(n), np.full(n, np.inf)
        ref_prox = lambda z: _ref_clip(z, lo, up)
        regname = "ProjectNonnegative"
    else:
        la, ua, lo, up = _box(rp, n)
        pargs = {"lower": la, "upper": ua}
        prox = lambda z, g: ProjectBox(z, la, ua)
        ref_prox = lambda z: _ref_clip(z, lo, up)
        regname = "ProjectBox"
    solver = "FISTA" if adaptive else "ISTA"
    facet = "adaptive=%s,prox=%s" % (adaptive, regname)
    (xs, Fs), F = _exact_min(A, b, "l1" if reg == "l1" else "box", lam, lo, up)
    sols = {}
    bad = {}       # operation -> {form: (message, detail)}

    def judge(x):
        """None, or (operation, message) naming the first optimality condition the point x violates."""
        if not np.all(np.isfinite(x)):
            return "fixed-point", "returned point is not finite"
        g = A.T @ (A @ x - b)
        fp = float(np.linalg.norm(x - ref_prox(x - t * g)))
        if fp > 1e-7 * max(1.0, float(np.max(np.abs(x)))):
            return "fixed-point", "||x - prox(x - t A^T(Ax-b))|| = %.3g" % fp
        kt = 1e-6 * max(1.0, float(np.max(np.abs(g))))
        if reg == "l1":
            nz = np.abs(x) > 1e-7
            viol = max([0.0] + list(np.abs(g[nz] + lam * np.sign(x[nz]))) + list(np.maximum(np.abs(g[~nz]) - lam, 0)))
            feas = True
        else:
            feas = bool(np.all(x >= lo - 1e-9) and np.all(x <= up + 1e-9))
            atlo = np.abs(x - lo) <= 1e-7
            atup = np.abs(x - up) <= 1e-7
            free = ~atlo & ~atup
            viol = max([0.0] + list(np.abs(g[free])) + list(np.maximum(-g[atlo & ~atup], 0)) + list(np.maximum(g[atup & ~atlo], 0)))
        if not feas or viol > kt:
            return "kkt", "returned point violates the optimality system (feasible=%s, KKT violation %.3g)" % (feas, viol)
        Fx = F(x)
        if Fx > Fs + 1e-8 * (1 + abs(Fs)):
            return "not-a-minimiser", "objective %.12g at the returned point > %.12g at the enumerated minimiser" % (Fx, Fs)
        if m >= n and not close(x, xs, 1e-6):
            return "not-a-minimiser", "strictly convex problem: returned point differs from the enumerated unique minimiser"
        return None

    rep = cell.get("rep", "float64")
    if rep != "float64":
        # start-representation cell: same start point handed over as `rep`; oracle: raises (lists only), or the returned point
        # passes the same optimality systems as above, agrees with the float64-start run and - when that run meets the
        # stopping rule after k iterations - is reached by the stopping rule within 10 k + 1000 iterations
        rc = _rep_class(rep)
        badr = {}
        for form in ("matrix", "function"):
            Aop = _store(A, cell["storage"])
            op = Aop if form == "matrix" else _funform(Aop)
            res.state("%s:%s:%s" % (form, cell["start"], rep))
            try:
                x64, it64 = FISTA(op, b.copy(), x0.copy(), prox, maxit=maxit, stepsize=t, abstol=abstol, adaptive=adaptive).solve()
                x64 = np.asarray(x64, float).ravel()
                ok64 = it64 < maxit and judge(x64) is None
            except Exception:
                ok64 = False
            if not ok64:
                res.count("float64-start-run-not-usable")     # not a representation matter; the float64 cells report it
                continue
            cap = 10 * int(it64) + 1000
            xobj = _as_rep(x0, rep)
            bc = b.copy()
            guard = _Guard(A=Aop, b=bc, **pargs)
            try:
                x, it = FISTA(op, bc, xobj, prox, maxit=cap, stepsize=t, abstol=abstol, adaptive=adaptive).solve()
            except Exception as e:
                res.refused += 1
                res.outcomes.add("%s:raises:%s" % (rc, type(e).__name__))
                if not _may_refuse(rep):
                    res.fail("C16|FISTA|raises|x0=%s" % rc, "solver raised %r for a %s start vector" % (e, rep))
                _flag_altered(res, "FISTA", guard, "%s, %s start" % (facet, rep))
                continue
            _flag_altered(res, "FISTA", guard, "%s, %s start" % (facet, rep))
            res.transitions += int(it)
            res.evaluations += 3
            if not _start_unchanged(xobj, x0, rep):
                res.fail("C16|FISTA|start-vector-altered|x0=%s" % rc, "the caller's start vector was modified by solve()", form=form)
            try:
                xa = np.asarray(x, float).ravel()
                if xa.shape != (n,):
                    raise ValueError("shape %s" % (xa.shape,))
            except Exception as e:
                badr[form] = ("returned object unusable as a vector: %r" % (e,), None)
                continue
            res.count("returned")
            res.outcomes.add("%s:%s:%s:%s:it=%d(float64 start: %d)" % (solver, regname, form, rc, it, it64))
            verdict = judge(xa)
            why = None
            if verdict is not None:
                why = "%s: %s (after %d iterations; float64 start: fine after %d)" % (verdict[0], verdict[1], it, it64)
            elif not close(xa, x64, 1e-7):
                why = "returned point differs from the one reached from the float64 representation of the same start point"
            elif it >= cap:
                why = ("stopping rule (abstol=%g) not met within %d iterations; from the float64 representation of the same point "
                       "it is met after %d" % (abstol, cap, it64))
            if why:
                badr[form] = (why, xa)
        if badr:
            f0 = sorted(badr)[0]
            res.fail("C16|FISTA|start-representation|x0=%s" % rc, "%s, %s start %s: %s" % (facet, rep, cell["start"], badr[f0][0]),
                     x=badr[f0][1], xstar=xs, forms=sorted(badr))
        if res.branches.get("returned", 0) == 0:
            res.nontrivial = False
        return

    if cell.get("facet"):
        # start-SCALE facet (start = 2^e x catalogue start) / right-hand-side STRUCTURE facet (b = 0, b orthogonal to range(A),
        # b = 2^-40 x catalogue b): the stopping rule of the solver is absolute, so the returned point is judged by exactly the
        # same optimality systems and tolerances as in the base product; a raise is a violation; runs that reach maxit only count
        fac = cell["facet"]
        wf = "%s,adaptive=%s" % (fac, adaptive)
        tag = ("2^%d" % cell["scale"]) if fac == "x0-scale" else "b=%s" % cell["b"]
        badw = {}
        for form in ("matrix", "function"):
            Aop = _store(A, cell["storage"])
            op = Aop if form == "matrix" else _funform(Aop)
            res.state("%s:%s:%s" % (form, cell["start"], tag))
            x0c = x0.copy()
            bc = b.copy()
            guard = _Guard(A=Aop, b=bc, **pargs)
            try:
                x, it = FISTA(op, bc, x0c, prox, maxit=maxit, stepsize=t, abstol=abstol, adaptive=adaptive).solve()
                x = np.asarray(x, float).ravel()
                it = int(it)
                if x.shape != (n,):
                    raise ValueError("returned point has shape %s" % (x.shape,))
            except Exception as e:
                res.refused += 1
                res.outcomes.add("raises:" + type(e).__name__)
                res.fail("C16|FISTA|raises|%s" % wf, "solver raised %r on a legal problem (%s, %s, start %s, %s form)"
                         % (e, regname, tag, cell["start"], form))
                _flag_altered(res, "FISTA", guard, "%s, %s, %s form" % (facet, tag, form))
                continue
            _flag_altered(res, "FISTA", guard, "%s, %s, %s form" % (facet, tag, form))
            res.transitions += it
            res.evaluations += 1
            sols[form] = x
            if not np.array_equal(x0c, x0):
                res.fail("C16|FISTA|start-vector-altered|%s" % wf, "x0 was modified in place")
            if it >= maxit:
                res.count("maxit-reached")
                res.outcomes.add("maxit")
                continue
            res.count("converged")
            res.outcomes.add("%s:%s:%s:%s:act=%s" % (solver, _shape_class(m, n), regname, tag,
                                                     "".join("0" if v == 0 else "x" for v in np.round(x, 9))))
            verdict = judge(x)
            if verdict is not None:
                badw.setdefault(verdict[0], {})[form] = ("%s, %s, start %s: stopped after %d<maxit iterations but %s"
                                                         % (regname, tag, cell["start"], it, verdict[1]), x)
        for opn, forms in sorted(badw.items()):
            f0 = sorted(forms)[0]
            res.fail("C16|FISTA|%s|%s" % (opn, wf), forms[f0][0], forms=sorted(forms), x=forms[f0][1], xstar=xs)
        if len(sols) == 2 and res.branches.get("converged", 0) == 2:
            res.evaluations += 1
            if not close(sols["matrix"], sols["function"], 1e-9):
                res.fail("C16|FISTA|matrix-vs-function|%s" % wf, "matrix form and function form return different points",
                         matrix=sols["matrix"], function=sols["function"])
        if res.branches.get("converged", 0) == 0:
            res.nontrivial = False
        if "matrix" in sols:
            res.sample = {"x0_norm": float(np.linalg.norm(x0)), "x": sols["matrix"], "enumerated_minimiser": xs, "objective": Fs}
        return

    for form in ("matrix", "function"):
        Aop = _store(A, cell["storage"])
        op = Aop if form == "matrix" else _funform(Aop)
        res.state("%s:%s" % (form, cell["start"]))
        x0c = x0.copy()
        bc = b.copy()
        guard = _Guard(A=Aop, b=bc, **pargs)
        try:
            x, it = FISTA(op, bc, x0c, prox, maxit=maxit, stepsize=t, abstol=abstol, adaptive=adaptive).solve()
        except Exception as e:
            res.refused += 1
            res.fail("C16|FISTA|raises|%s,form=%s" % (facet, form), "solver raised %r on a documented input" % (e,))
            _flag_altered(res, "FISTA", guard, "%s, %s form" % (facet, form))
            continue
        _flag_altered(res, "FISTA", guard, "%s, %s form" % (facet, form))
        res.transitions += int(it)
        res.evaluations += 1
        x = np.asarray(x, float).ravel()
        sols[form] = x
        if not close(x0c, x0, 1e-15):
            res.fail("C16|FISTA|start-vector-altered|%s" % facet, "x0 was modified in place")
        if it >= maxit:
            res.count("maxit-reached")
            res.outcomes.add("maxit")
            continue
        res.count("converged")
        g = A.T @ (A @ x - b)
        fp = float(np.linalg.norm(x - ref_prox(x - t * g)))
        sc = max(1.0, float(np.max(np.abs(x))))
        res.outcomes.add("%s:%s:%s:act=%s" % (solver, _shape_class(m, n), regname,
                                              "".join("0" if v == 0 else "x" for v in np.round(x, 9))))
        if not np.all(np.isfinite(x)) or fp > 1e-7 * sc:
            bad.setdefault("fixed-point", {})[form] = (
                "stopped after %d<maxit iterations but ||x - prox(x - t A^T(Ax-b))|| = %.3g" % (it, fp), {"x": x})
            continue
        # KKT of min 1/2||Ax-b||^2 + regulariser  (independent of the prox map)
        kt = 1e-6 * max(1.0, float(np.max(np.abs(g))))
        if reg == "l1":
            nz = np.abs(x) > 1e-7
            viol = max([0.0] + list(np.abs(g[nz] + lam * np.sign(x[nz]))) + list(np.maximum(np.abs(g[~nz]) - lam, 0)))
            feas = True
        else:
            feas = bool(np.all(x >= lo - 1e-9) and np.all(x <= up + 1e-9))
            atlo = np.abs(x - lo) <= 1e-7
            atup = np.abs(x - up) <= 1e-7
            free = ~atlo & ~atup
            viol = max([0.0] + list(np.abs(g[free])) + list(np.maximum(-g[atlo & ~atup], 0)) + list(np.maximum(g[atup & ~atlo], 0)))
        if not feas or viol > kt:
            bad.setdefault("kkt", {})[form] = (
                "returned point violates the optimality system (feasible=%s, KKT violation %.3g)" % (feas, viol), {"x": x, "grad": g})
            continue
        # exact minimiser by complete active-set enumeration
        Fx = F(x)
        if Fx > Fs + 1e-8 * (1 + abs(Fs)):
            bad.setdefault("not-a-minimiser", {})[form] = (
                "objective %.12g at the returned point > %.12g at the enumerated minimiser" % (Fx, Fs), {"x": x, "xstar": xs})
        elif m >= n and not close(x, xs, 1e-6):
            bad.setdefault("not-a-minimiser", {})[form] = (
                "strictly convex problem: returned point differs from the enumerated unique minimiser", {"x": x, "xstar": xs})
    for opn, forms in sorted(bad.items()):
        f0 = sorted(forms)[0]
        fac = facet if len(forms) == 2 else "%s,form=%s" % (facet, f0)
        res.fail("C16|FISTA|%s|%s" % (opn, fac), forms[f0][0], forms=sorted(forms), **forms[f0][1])
    if len(sols) == 2:
        res.evaluations += 1
        if not close(sols["matrix"], sols["function"], 1e-9):
            res.fail("C16|FISTA|matrix-vs-function|%s" % facet, "matrix form and function form return different points",
                     matrix=sols["matrix"], function=sols["function"])
    if res.branches.get("converged", 0) == 0:
        res.nontrivial = False
    if "matrix" in sols:
        res.sample = {"x": sols["matrix"], "enumerated_minimiser": xs, "objective": Fs}


# ----------------------------------------------------------------------------------------
# Levenberg-Marquardt
# ----------------------------------------------------------------------------------------
def _lm_problem(name, k, data=None):
    """Residual, Jacobian and the two catalogue starts; `data` (structure facet; expfit and quadpert only): the data vector is
    zero / exactly orthogonal to range(A) (quadpert) / 2^-40 x the catalogue data."""
    if data not in (None, "cat") and name not in ("expfit", "quadpert"):
        raise ValueError("no data variants for " + name)
    if name == "expfit":
        tt = 0.25 * np.arange(6)
        y = 2.0 * np.exp(-1.0 * tt) + 0.02 * refs.dyadic_vec(6, k)
        y = _rhs(None, y, data)
        r = lambda x: x[0] * np.exp(x[1] * tt) - y
        J = lambda x: np.column_stack([np.exp(x[1] * tt), x[0] * tt * np.exp(x[1] * tt)])
        starts = [np.array([1.0, 0.0]), np.array([3.0, -2.0])]
    elif name == "rosenbrock":
        r = lambda x: np.array([10.0 * (x[1] - x[0] ** 2), 1.0 - x[0]])
        J = lambda x: np.array([[-20.0 * x[0], 10.0], [-1.0, 0.0]])
        starts = [np.array([-1.2, 1.0]), np.array([0.5, 2.0 + 0.25 * k])]
    elif name == "introsen":    # Rosenbrock residuals from integer-valued starts (start-representation cells)
        r = lambda x: np.array([10.0 * (x[1] - x[0] ** 2), 1.0 - x[0]])
        J = lambda x: np.array([[-20.0 * x[0], 10.0], [-1.0, 0.0]])
        starts = [np.array([-1.0, 2.0]), np.array([2.0, -1.0 - k])]
    elif name == "quadpert":
        A = refs.full_matrix(5, 3, k)
        b = _rhs(A, refs.dyadic_vec(5, k + 1), data)
        idx = np.arange(5) % 3

        def r(x):
            return A @ x + 0.1 * x[idx] ** 2 - b

        def J(x):
            Jm = A.copy()
            for i in range(5):
                Jm[i, idx[i]] += 0.2 * x[idx[i]]
            return Jm
        starts = [np.zeros(3), np.ones(3)]
    elif name == "smalldecay":
        # small-amplitude exact data: the initial damping ||J0^T r0|| is below nu0, the first very successful step switches
        # the damping off (pure Gauss-Newton) and from these starts the next Gauss-Newton step is rejected, so the damping
        # has to be switched back on - exercises the rejected-step branch at nu = 0
        tt = np.linspace(0, 4, 12)
        xt = [np.array([0.9480442, 1.44239129]), np.array([1.04766525, 0.47934198]), np.array([1.12198377, 1.54862207])][k]
        y = 0.1 * xt[0] * np.exp(-xt[1] * tt)
        r = lambda x: 0.1 * x[0] * np.exp(-x[1] * tt) - y
        J = lambda x: 0.1 * np.array([np.exp(-x[1] * tt), -x[0] * tt * np.exp(-x[1] * tt)]).T
        starts = [[np.array([0.99878861, 3.77424113]), np.array([2.07277038, 3.71590276]), np.array([2.27785719, 3.73503278])][k],
                  xt + np.array([0.3, 0.4])]
    else:
        raise ValueError(name)
    return r, J, starts


def _eval_lm(cell, res):
    import scipy.sparse as sp
    from cuqi.solver import LM
    k = cell["cat"]
    maxit = 3000
    if cell["prob"] == "explicit":
        # undocumented matrix form (A and jacfun given as arrays): must raise or return a stationary point of ||Ax||^2
        A = refs.full_matrix(4, 3, k)
        x0 = np.zeros(3) if cell["start"] == 0 else np.ones(3)
        res.state("explicit")
        res.transitions += 1
        try:
            x, info = LM(A, x0, A, maxit=50, gradtol=1e-11, sparse=False).solve()
        except Exception as e:
            res.refused += 1
            res.outcomes.add("explicit-refused:" + type(e).__name__)
            res.nontrivial = False
            return
        x = np.asarray(x, float).ravel()
        g = A.T @ (A @ x)
        res.outcomes.add("explicit-returned")
        if info["nfev"] < 50 and np.linalg.norm(g) > 1e-7:
            res.fail("C16|LM|stationarity|form=matrix", "matrix form returned a non-stationary point of ||Ax||^2, |grad|=%.3g" % np.linalg.norm(g), x=x)
        return
    if cell["prob"] == "domain":
        _eval_lm_domain(cell, res)
        return
    if cell.get("facet"):
        _eval_lm_wide(cell, res, maxit)
        return
    r, J, starts = _lm_problem(cell["prob"], k)
    x0 = starts[cell["start"]].astype(float)
    if cell.get("rep", "float64") != "float64":
        _eval_lm_rep(cell, res, r, J, x0, maxit)
        return
    documented = (cell["sparse"] and cell["jtype"] == "csr") or (not cell["sparse"] and cell["jtype"] == "dense")
    jac = (lambda x: sp.csr_matrix(J(x))) if cell["jtype"] == "csr" else J
    facet = "sparse=%s,jac=%s" % (cell["sparse"], cell["jtype"])
    # 'reachable': relative gradient reduction 1e-9; 'below-roundoff': 1e-15, a request the arithmetic cannot certify -
    # the solver may then run to maxit (nothing demanded) but a point returned BEFORE maxit is still a claim of convergence
    gradtol = 1e-9 if cell["gradtol"] == "reachable" else 1e-15
    res.state(facet + ",gradtol=" + cell["gradtol"])
    x0c = x0.copy()
    try:
        x, info = LM(r, x0c, jac, maxit=maxit, tol=1e-12, gradtol=gradtol, sparse=cell["sparse"]).solve()
    except Exception as e:
        res.refused += 1
        res.outcomes.add("raises:" + type(e).__name__)
        if documented:
            res.fail("C16|LM|raises|%s" % facet, "solver raised %r on a documented input" % (e,))
        res.nontrivial = False
        return
    it = int(info["nfev"])
    res.transitions += it
    res.evaluations += 1
    x = np.asarray(x, float).ravel()
    if not close(x0c, x0, 1e-15):
        res.fail("C16|LM|start-vector-altered|%s" % facet, "x0 was modified in place")
    g0 = J(x0).T @ r(x0)
    g = J(x).T @ r(x)
    if it >= maxit:
        res.count("maxit-reached")
        res.outcomes.add("maxit")
        if cell["gradtol"] == "reachable" and documented:
            # a smooth, well-conditioned 2-3 parameter problem and a tolerance the arithmetic can certify: Levenberg-Marquardt
            # that spins for 3000 iterations without reaching a stationary point does not "return a stationary point"
            res.fail("C16|LM|no-convergence|%s" % facet, "did not reach ||J^T r|| <= 1e-9 ||J0^T r0|| within %d iterations on the "
                     "benign problem %r (||J^T r|| = %.3g, initially %.3g)" % (maxit, cell["prob"], float(np.linalg.norm(g)),
                                                                              float(np.linalg.norm(g0))), x=x)
        res.nontrivial = False
        return
    res.count("converged")
    res.outcomes.add("%s:it=%d:f=%.6g" % (cell["prob"], it, 0.5 * float(r(x) @ r(x))))
    gn = float(np.linalg.norm(g))
    if not np.all(np.isfinite(x)):
        res.fail("C16|LM|nonfinite-result|gradtol=%s" % cell["gradtol"],
                 "stopped after %d<maxit iterations and returned x=%s (start %s was finite, ||J^T r|| there %.3g)"
                 % (it, x.tolist(), x0.tolist(), np.linalg.norm(g0)), x0=x0)
        return
    if gn > 1e-7 * max(1.0, float(np.linalg.norm(g0))):
        res.fail("C16|LM|stationarity|%s" % facet,
                 "stopped after %d<maxit iterations but ||J^T r|| = %.3g (initially %.3g)" % (it, gn, np.linalg.norm(g0)), x=x)
    # the reported residual / Jacobian belong to the returned point
    try:
        rf = np.asarray(info["func"], float).ravel()
        Jf = info["Jac"]
        Jf = np.asarray(Jf.todense()) if hasattr(Jf, "todense") else np.asarray(Jf, float)
        if not close(rf, r(x), 1e-9) or not close(Jf, J(x), 1e-9):
            res.fail("C16|LM|info|%s" % facet, "info['func']/info['Jac'] are not the residual/Jacobian at the returned point")
    except Exception as e:
        res.fail("C16|LM|info|%s" % facet, "info unusable: %r" % (e,))
    res.sample = {"x": x, "grad_norm": gn, "iterations": it}


def _eval_lm_wide(cell, res, maxit):
    """LM cells of the start-SCALE facet (start = 2^e x catalogue start) and of the data STRUCTURE facet (zero data, data
    exactly orthogonal to range(A), data 2^-40 x catalogue; start 0 of quadpert is the zero vector); documented
    sparse/Jacobian combinations, reachable gradtol.  Oracle: the solver returns (a raise is a violation whenever the residual
    and the Jacobian at the start are finite and the Jacobian has numerical full rank - otherwise the start lies outside the
    problem's regular domain and a refusal only counts), and a point returned before maxit is stationary relative to the
    initial gradient (the solver's stopping rule is relative to it):
        ||J^T r||  <=  1e-7 ||J0^T r0||  +  1e-10 ||J|| ||r||   (second term: rounding of the product evaluated here)."""
    import scipy.sparse as sp
    from cuqi.solver import LM
    k, fac = cell["cat"], cell["facet"]
    r, J, starts = _lm_problem(cell["prob"], k, cell.get("data"))
    x0 = np.asarray(starts[cell["start"]], float) * 2.0 ** cell.get("scale", 0)
    jac = (lambda x: sp.csr_matrix(J(x))) if cell["jtype"] == "csr" else J
    tag = ("2^%d" % cell["scale"]) if fac == "x0-scale" else "data=%s" % cell["data"]
    res.state("sparse=%s,jac=%s,%s,%s" % (cell["sparse"], cell["jtype"], cell["prob"], tag))
    with np.errstate(all="ignore"):
        r0, J0 = np.asarray(r(x0), float), np.asarray(J(x0), float)
        regular = bool(np.all(np.isfinite(r0)) and np.all(np.isfinite(J0)))
        if regular:
            sv = np.linalg.svd(J0, compute_uv=False)
            regular = bool(sv[-1] > 1e-12 * sv[0])
        g0n = float(np.linalg.norm(J0.T @ r0)) if regular else float("nan")
    if not regular:
        # e.g. exp(-2^e t) underflows: a zero Jacobian column; nothing is promised there and the cell is not run
        res.count("start-outside-regular-domain")
        res.outcomes.add("irregular-start:%s" % cell["prob"])
        res.nontrivial = False
        return
    x0c = x0.copy()
    try:
        x, info = LM(r, x0c, jac, maxit=maxit, tol=1e-12, gradtol=1e-9, sparse=cell["sparse"]).solve()
        it = int(info["nfev"])
        x = np.asarray(x, float).ravel()
        if x.shape != x0.shape:
            raise ValueError("returned point has shape %s" % (x.shape,))
    except Exception as e:
        res.refused += 1
        res.outcomes.add("raises:%s" % type(e).__name__)
        res.nontrivial = False
        res.fail("C16|LM|raises|%s" % fac, "solver raised %r on the smooth problem %r (%s) from the start %s where residual and "
                 "Jacobian are finite and the Jacobian has full rank" % (e, cell["prob"], tag, x0.tolist()))
        return
    res.transitions += it
    res.evaluations += 1
    if not np.array_equal(x0c, x0):
        res.fail("C16|LM|start-vector-altered|%s" % fac, "x0 was modified in place")
    if it >= maxit:
        res.count("maxit-reached")
        res.outcomes.add("maxit")
        res.nontrivial = False
        return
    res.count("converged")
    res.outcomes.add("%s:%s:it=%d" % (cell["prob"], tag, it))
    if not np.all(np.isfinite(x)):
        res.fail("C16|LM|nonfinite-result|%s" % fac, "stopped after %d<maxit iterations and returned x=%s (start %s, %s)"
                 % (it, x.tolist(), x0.tolist(), tag), x0=x0)
        return
    with np.errstate(all="ignore"):
        rx, Jx = np.asarray(r(x), float), np.asarray(J(x), float)
        gn = float(np.linalg.norm(Jx.T @ rx))
        bound = 1e-7 * g0n + 1e-10 * float(np.linalg.norm(Jx)) * float(np.linalg.norm(rx))
    if not gn <= bound:
        res.fail("C16|LM|stationarity|%s" % fac, "%s, %s, start %s: stopped after %d<maxit iterations but ||J^T r|| = %.3g > %.3g "
                 "(initially %.3g)" % (cell["prob"], tag, x0.tolist(), it, gn, bound, g0n), x=x)
    try:
        rf = np.asarray(info["func"], float).ravel()
        Jf = info["Jac"]
        Jf = np.asarray(Jf.todense()) if hasattr(Jf, "todense") else np.asarray(Jf, float)
        sc = max(float(np.max(np.abs(rx))), np.finfo(float).tiny)
        sj = max(float(np.max(np.abs(Jx))), np.finfo(float).tiny)
        if rf.shape != rx.shape or Jf.shape != Jx.shape or not close(rf / sc, rx / sc, 1e-9) or not close(Jf / sj, Jx / sj, 1e-9):
            res.fail("C16|LM|info|%s" % fac, "info['func']/info['Jac'] are not the residual/Jacobian at the returned point")
    except Exception as e:
        res.fail("C16|LM|info|%s" % fac, "info unusable: %r" % (e,))
    res.sample = {"x0": x0, "x": x, "grad_norm": gn, "initial_grad_norm": g0n, "iterations": it}


def _domain_problem(fam, ydata, oob, k):
    """Curve fit with a restricted domain: r_i(x) = phi(x0 + x1 t_i) - y_i on t = -1, -0.75, ..., 1 (9 points), phi = log / sqrt /
    reciprocal (positive branch), defined where u_i = x0 + x1 t_i > 0.  Data: phi at x* = (2, 1.5 - k/4), exact or with the
    catalogue perturbation 0.02 dyadic_vec.  Outside the domain the user's residual follows the convention `oob`:
    'nan' / '+inf' / '-inf' in exactly the offending components (what numpy's log / sqrt do, resp. a user marking them), or
    the WHOLE vector NaN / +inf ('nan-all', 'inf-all': a user function that gives up as soon as one argument is illegal).
    A non-finite x gives NaN.  The Jacobian rows follow the residual (NaN where the residual is not defined).
    Returns r, J and a counter dict (active while cnt['on']) classifying every residual evaluation made by the solver."""
    t = 0.25 * np.arange(-4, 5)
    m = len(t)
    xt = np.array([2.0, 1.5 - 0.25 * k])
    if fam == "log":
        phi, dphi = np.log, (lambda u: 1.0 / u)
    elif fam == "sqrt":
        phi, dphi = np.sqrt, (lambda u: 0.5 / np.sqrt(u))
    elif fam == "recip":
        phi, dphi = (lambda u: 1.0 / u), (lambda u: -1.0 / u ** 2)
    else:
        raise ValueError(fam)
    y = phi(xt[0] + xt[1] * t)
    if ydata == "noisy":
        y = y + 0.02 * refs.dyadic_vec(m, k)
    elif ydata != "exact":
        raise ValueError(ydata)
    if oob not in DOM_OOB:
        raise ValueError(oob)
    cnt = {"on": False, "evals": 0, "partly": 0, "all": 0, "inf": 0, "nan": 0}

    def split(x):
        x = np.asarray(x, float).ravel()
        with np.errstate(all="ignore"):
            u = x[0] + x[1] * t
        return u, ~(u > 0), np.isnan(u)

    def r(x):
        u, outd, und = split(x)
        v = phi(np.where(outd, 1.0, u)) - y
        if outd.any():
            if oob in ("nan-all", "inf-all"):
                v = np.full(m, np.nan if oob == "nan-all" else np.inf)
            else:
                v[outd] = {"nan": np.nan, "+inf": np.inf, "-inf": -np.inf}[oob]
            v[und] = np.nan
        if cnt["on"]:
            bad = int(np.sum(~np.isfinite(v)))
            cnt["evals"] += 1
            cnt["partly"] += 1 if 0 < bad < m else 0
            cnt["all"] += 1 if bad == m else 0
            cnt["inf"] += 1 if np.any(np.isinf(v)) else 0
            cnt["nan"] += 1 if np.any(np.isnan(v)) else 0
        return v

    def J(x):
        u, outd, _ = split(x)
        d = dphi(np.where(outd, 1.0, u))
        if outd.any():
            d = np.where(outd | (oob in ("nan-all", "inf-all")), np.nan, d)
        return np.column_stack([d, t * d])
    return r, J, cnt


def _eval_lm_domain(cell, res):
    """LM on a residual with a RESTRICTED DOMAIN, from every start of a lattice of in-domain points far from the minimiser, so that
    trial steps leave the domain (for some components, for all components, NaN or +-inf according to the user's convention).
    Oracle (unchanged): the solver raises after having met a non-finite trial residual (explicit refusal - counted), or the point
    it returns before maxit is finite, the residual there is finite (x lies inside the domain) and ||J^T r|| is small relative to
    the start, and info['func'] / info['Jac'] belong to that point.  A raise while every residual evaluation was finite is a raise
    on an (as far as the solver can tell) smooth documented problem: violation.  Exact (zero-residual) data with a reachable
    gradtol must converge within maxit - the reductions of f are relative there, rounding cannot stall the acceptance test."""
    import scipy.sparse as sp
    from cuqi.solver import LM
    k, fam, ydata, oob = cell["cat"], cell["fam"], cell["ydata"], cell["oob"]
    r, J, cnt = _domain_problem(fam, ydata, oob, k)
    x0 = np.array([float(cell["mag"]), float(cell["mag"]) * float(cell["rho"])])
    jac = (lambda x: sp.csr_matrix(J(x))) if cell["jtype"] == "csr" else J
    fac = "restricted-domain,oob=%s" % oob
    gradtol = 1e-9 if cell["gradtol"] == "reachable" else 1e-15
    maxit = DOM_MAXIT
    res.state("%s,%s,oob=%s,sparse=%s,jac=%s,start=(%g,%g),gradtol=%s" % (fam, ydata, oob, cell["sparse"], cell["jtype"], x0[0], x0[1],
                                                                          cell["gradtol"]))
    r0, J0 = r(x0), J(x0)
    if not (np.all(np.isfinite(r0)) and np.all(np.isfinite(J0))):
        raise ValueError("lattice start %s outside the domain" % x0.tolist())      # harness error: starts are in-domain by construction
    g0n = float(np.linalg.norm(J0.T @ r0))
    x0c = x0.copy()
    cnt["on"] = True
    err = None
    try:
        x, info = LM(r, x0c, jac, maxit=maxit, tol=1e-12, gradtol=gradtol, sparse=cell["sparse"]).solve()
        it = int(info["nfev"])
        x = np.asarray(x, float).ravel()
        if x.shape != x0.shape:
            raise ValueError("returned point has shape %s" % (x.shape,))
    except Exception as e:
        err = e
    finally:
        cnt["on"] = False
    left = cnt["partly"] + cnt["all"]
    res.count("domain:residual-evaluations-by-solver", cnt["evals"])
    res.count("domain:trial-residual-partly-nonfinite", cnt["partly"])
    res.count("domain:trial-residual-all-nonfinite", cnt["all"])
    res.count("domain:trial-residual-with-nan", cnt["nan"])
    res.count("domain:trial-residual-with-inf", cnt["inf"])
    res.count("domain:runs-with-partly-nonfinite-trial", 1 if cnt["partly"] else 0)
    res.count("domain:runs-never-leaving-domain", 0 if left else 1)
    cls = ("partly+all" if cnt["all"] else "partly") if cnt["partly"] else ("all" if cnt["all"] else "never-left")
    if err is not None:
        res.refused += 1
        res.nontrivial = False
        res.outcomes.add("domain:raises:%s:%s" % (type(err).__name__, cls))
        if not left:
            res.fail("C16|LM|raises|restricted-domain", "solver raised %r on the %s fit (%s data) from the in-domain start %s although "
                     "every residual it evaluated was finite" % (err, fam, ydata, x0.tolist()))
        return
    res.transitions += it
    res.evaluations += 1
    if not np.array_equal(x0c, x0):
        res.fail("C16|LM|start-vector-altered|restricted-domain", "x0 was modified in place")
    if it >= maxit:
        res.count("maxit-reached")
        res.outcomes.add("domain:maxit:%s:%s" % (ydata, cell["gradtol"]))
        res.nontrivial = False
        if ydata == "exact" and cell["gradtol"] == "reachable":
            with np.errstate(all="ignore"):
                gx = float(np.linalg.norm(J(x).T @ r(x))) if np.all(np.isfinite(x)) else float("nan")
            res.fail("C16|LM|no-convergence|restricted-domain", "did not reach ||J^T r|| <= 1e-9 ||J0^T r0|| within %d iterations on the "
                     "zero-residual %s fit from the in-domain start %s (%d trial residuals partly, %d entirely non-finite; ||J^T r|| = "
                     "%.3g, initially %.3g)" % (maxit, fam, x0.tolist(), cnt["partly"], cnt["all"], gx, g0n), x=x)
        return
    res.count("converged")
    res.outcomes.add("domain:%s:oob=%s:%s" % (fam, oob, cls))
    if not left:
        res.nontrivial = False          # from this start no trial step left the domain: an ordinary smooth run
    with np.errstate(all="ignore"):
        finite_x = bool(np.all(np.isfinite(x)))
        rx = r(x) if finite_x else np.full(len(r0), np.nan)
        Jx = J(x) if finite_x else np.full(J0.shape, np.nan)
    if not (finite_x and np.all(np.isfinite(rx)) and np.all(np.isfinite(Jx))):
        res.fail("C16|LM|nonfinite-result|%s" % fac, "%s fit (%s data), start %s: stopped after %d<maxit iterations and returned x=%s "
                 "where the residual is %s - not a point of the problem's domain, let alone a stationary point (%d trial residuals "
                 "were partly, %d entirely non-finite)" % (fam, ydata, x0.tolist(), it, x.tolist(), rx.tolist(), cnt["partly"], cnt["all"]),
                 x0=x0, x=x)
        return
    gn = float(np.linalg.norm(Jx.T @ rx))
    bound = 1e-7 * g0n + 1e-10 * float(np.linalg.norm(Jx)) * float(np.linalg.norm(rx))
    if not gn <= bound:
        res.fail("C16|LM|stationarity|%s" % fac, "%s fit (%s data), start %s: stopped after %d<maxit iterations but ||J^T r|| = %.3g > "
                 "%.3g (initially %.3g)" % (fam, ydata, x0.tolist(), it, gn, bound, g0n), x=x)
    try:
        rf = np.asarray(info["func"], float).ravel()
        Jf = info["Jac"]
        Jf = np.asarray(Jf.todense()) if hasattr(Jf, "todense") else np.asarray(Jf, float)
        if rf.shape != rx.shape or Jf.shape != Jx.shape or not np.all(np.isfinite(rf)) or not np.all(np.isfinite(Jf)) \
                or not close(rf, rx, 1e-9) or not close(Jf, Jx, 1e-9):
            res.fail("C16|LM|info|restricted-domain", "info['func']/info['Jac'] are not the residual/Jacobian at the returned point")
    except Exception as e:
        res.fail("C16|LM|info|restricted-domain", "info unusable: %r" % (e,))
    res.sample = {"x0": x0, "x": x, "grad_norm": gn, "initial_grad_norm": g0n, "iterations": it,
                  "trial_residuals_partly_nonfinite": cnt["partly"], "trial_residuals_all_nonfinite": cnt["all"]}


def _eval_lm_rep(cell, res, r0, J0, x0, maxit):
    """Start-representation cell for LM (documented sparse/Jacobian combinations, reachable gradtol): raises (lists only), or
    the returned point is stationary, agrees with the float64-start run, and is reached before maxit when that run is."""
    import scipy.sparse as sp
    from cuqi.solver import LM
    rep = cell["rep"]
    rc = _rep_class(rep)
    r = lambda x: r0(np.asarray(x, float))          # the user's functions accept whatever array_like the solver hands them
    J = lambda x: J0(np.asarray(x, float))
    jac = (lambda x: sp.csr_matrix(J(x))) if cell["jtype"] == "csr" else J
    facet = "sparse=%s,jac=%s" % (cell["sparse"], cell["jtype"])
    res.state("%s,x0=%s" % (facet, rep))
    g0n = max(1.0, float(np.linalg.norm(J(x0).T @ r(x0))))
    try:
        x64, info64 = LM(r, x0.copy(), jac, maxit=maxit, tol=1e-12, gradtol=1e-9, sparse=cell["sparse"]).solve()
        x64 = np.asarray(x64, float).ravel()
        it64 = int(info64["nfev"])
        ok64 = it64 < maxit and np.all(np.isfinite(x64)) and float(np.linalg.norm(J(x64).T @ r(x64))) <= 1e-7 * g0n
    except Exception:
        ok64 = False
    if not ok64:
        res.count("float64-start-run-not-usable")
        res.nontrivial = False
        return
    xobj = _as_rep(x0, rep)
    try:
        x, info = LM(r, xobj, jac, maxit=maxit, tol=1e-12, gradtol=1e-9, sparse=cell["sparse"]).solve()
        it = int(info["nfev"])
    except Exception as e:
        res.refused += 1
        res.outcomes.add("%s:raises:%s" % (rc, type(e).__name__))
        res.nontrivial = False
        if not _may_refuse(rep):
            res.fail("C16|LM|raises|x0=%s" % rc, "solver raised %r for a %s start vector" % (e, rep))
        return
    res.transitions += it
    res.evaluations += 3
    if not _start_unchanged(xobj, x0, rep):
        res.fail("C16|LM|start-vector-altered|x0=%s" % rc, "the caller's start vector was modified by solve()")
    why = None
    xa = None
    try:
        xa = np.asarray(x, float).ravel()
        if xa.shape != x0.shape:
            raise ValueError("shape %s" % (xa.shape,))
    except Exception as e:
        why = "returned object unusable as a vector: %r" % (e,)
    if why is None:
        res.count("converged" if it < maxit else "maxit-reached")
        res.outcomes.add("%s:%s:it=%d(float64 start: %d)" % (cell["prob"], rc, it, it64))
        gn = float(np.linalg.norm(J(xa).T @ r(xa))) if np.all(np.isfinite(xa)) else float("inf")
        if it >= maxit:
            why = "did not reach the gradient tolerance within %d iterations; from the float64 representation of the same point it does after %d" % (maxit, it64)
        elif not gn <= 1e-7 * g0n:
            why = "stopped after %d<maxit iterations but ||J^T r|| = %.3g (initially %.3g)" % (it, gn, g0n)
        elif not close(xa, x64, 1e-6):
            why = "returned point differs from the one reached from the float64 representation of the same start point"
        else:
            try:
                rf = np.asarray(info["func"], float).ravel()
                Jf = info["Jac"]
                Jf = np.asarray(Jf.todense()) if hasattr(Jf, "todense") else np.asarray(Jf, float)
                if not close(rf, r(xa), 1e-9) or not close(Jf, J(xa), 1e-9):
                    why = "info['func']/info['Jac'] are not the residual/Jacobian at the returned point"
            except Exception as e:
                why = "info unusable: %r" % (e,)
    if why:
        res.fail("C16|LM|start-representation|x0=%s" % rc, "%s, %s start %s: %s" % (facet, rep, x0.tolist(), why), x=xa, x_float64_start=x64)
    res.sample = {"x": xa, "iterations": it, "iterations_float64_start": it64}


# ----------------------------------------------------------------------------------------
# SciPy wrappers
# ----------------------------------------------------------------------------------------
def _objective(n, k):
    Q = refs.spd_matrix(n, k)
    c = refs.dyadic_vec(n, k + 1, scale=0.5)
    f = lambda x: float(0.5 * x @ Q @ x - c @ x + 0.25 * np.sum(np.asarray(x) ** 4))
    g = lambda x: np.asarray(Q @ x - c + np.asarray(x) ** 3, float)
    return f, g


def _same(a, b, rtol=1e-12):
    try:
        if a is None or b is None:
            return a is None and b is None
        if isinstance(a, (str, bytes)) or isinstance(b, (str, bytes)):
            return a == b
        if hasattr(a, "todense"):
            a = np.asarray(a.todense())
        if hasattr(b, "todense"):
            b = np.asarray(b.todense())
        return close(np.asarray(a, float), np.asarray(b, float), rtol)
    except Exception:
        return False


def _wrapper_start(cell, n, k):
    v = cell.get("x0val", "dyadic")
    if v == "dyadic":
        return refs.dyadic_vec(n, k + 3)
    return _start(v, n, k)


def _x0facet(x0type):
    return "" if x0type in ("ndarray", "CUQIarray") else ",x0=%s" % _rep_class(x0type)


def _eval_lbfgsb(cell, res):
    from scipy.optimize import fmin_l_bfgs_b
    from cuqi.solver import L_BFGS_B
    n, k = cell["n"], cell["cat"]
    f, g = _objective(n, k)
    x0 = _wrapper_start(cell, n, k)
    x0type = cell.get("x0type", "ndarray")
    xf = _x0facet(x0type)
    kw = {"none": {}, "bounds": {"bounds": [(-0.25, 0.5)] * n}, "maxiter1": {"maxiter": 1}, "maxfun3": {"maxfun": 3}}[cell["kw"]]
    grad = g if cell["grad"] else None
    facet = "grad=%s,kwargs=%s%s" % (cell["grad"], cell["kw"], xf)
    try:
        ref = fmin_l_bfgs_b(f, _as_rep(x0, x0type), fprime=grad, approx_grad=0 if cell["grad"] else 1, **kw)
    except Exception as e:
        ref = None      # SciPy itself refuses this start representation
        res.outcomes.add("scipy-refuses:" + type(e).__name__)
    res.state(facet)
    res.transitions += 1
    x0arg = _as_rep(x0, x0type)
    kwarg = {kk: (list(v) if isinstance(v, list) else v) for kk, v in kw.items()}     # the wrapper gets its own objects
    guard = _Guard(**kwarg)
    try:
        x, info = L_BFGS_B(f, x0arg, gradfunc=grad, **kwarg).solve()
    except Exception as e:
        res.refused += 1
        if ref is not None:
            res.fail("C16|L_BFGS_B|raises|%s" % facet, "wrapper raised %r where the direct SciPy call returns" % (e,))
        else:
            res.nontrivial = False
        return
    _flag_altered(res, "L_BFGS_B", guard, facet)
    if ref is None:
        res.fail("C16|L_BFGS_B|x|scipy-refuses%s" % xf, "wrapper returned although SciPy refuses this configuration")
        return
    res.evaluations += 1
    if not _start_unchanged(x0arg, x0, x0type):
        res.fail("C16|L_BFGS_B|start-vector-altered|x0=%s" % _rep_class(x0type), "the caller's start vector was modified by solve()")
    d = ref[2]
    res.outcomes.add("warnflag=%d" % d["warnflag"])
    checks = [("x", x, ref[0]), ("func", info.get("func"), ref[1]), ("grad", info.get("grad"), d["grad"]),
              ("nit", info.get("nit"), d["nit"]), ("nfev", info.get("nfev"), d["funcalls"]),
              ("success", float(bool(info.get("success"))), float(d["warnflag"] == 0))]
    for nm, a, bb in checks:
        res.evaluations += 1
        if not _same(a, bb):
            res.fail("C16|L_BFGS_B|%s|warnflag=%d%s" % (nm, d["warnflag"], xf), "%s: wrapper's %s = %r, SciPy's = %r" % (facet, nm, a, bb))
            break      # a wrong x makes every later field differ: report the first (most upstream) difference only
    res.sample = {"x": x, "scipy_x": ref[0], "warnflag": d["warnflag"]}


class _quiet:
    """SciPy warns (RuntimeWarning / OptimizeWarning) about keywords a method does not use; the verdict is on the returned values."""

    def __enter__(self):
        import warnings
        self._c = warnings.catch_warnings()
        self._c.__enter__()
        warnings.simplefilter("ignore")

    def __exit__(self, *a):
        return self._c.__exit__(*a)


def _min_kwargs(name, n, k, with_jac):
    """Fresh keyword objects for scipy.optimize.minimize / the wrappers + the data of the KKT oracle (None when unconstrained).
    Box [-0.25, 0.5]^n (active at the unconstrained minimiser of the catalogue objective); linear constraint a.x = d resp.
    a.x >= d with d = half the maximum of a.x over the box, so the constraint is feasible with and without the box."""
    parts = name.split(",")
    lo, up = -0.25, 0.5
    a = np.asarray(refs.dyadic_vec(n, k + 5), float)
    if not np.any(a):
        a = np.ones(n)
    d = 0.5 * float(np.sum(np.where(a > 0, a * up, a * lo)))
    kw, kkt = {}, {}
    if "tol" in parts:
        kw["tol"] = 1e-10
    if "options" in parts:
        kw["options"] = {"maxiter": 2}
    if "bounds" in parts:
        kw["bounds"] = [(lo, up)] * n
        kkt["box"] = (lo, up)
    for typ in ("eq", "ineq"):
        if typ in parts:
            con = {"type": typ, "fun": lambda x, a=a, d=d: float(a @ np.asarray(x, float) - d)}
            if with_jac:
                con["jac"] = lambda x, a=a: a.copy()
            kw["constraints"] = con
            kkt["con"] = (typ, a.copy(), d)
    return kw, (kkt or None)


def _kkt_residual(x, g, kkt):
    """max(infeasibility, distance of the gradient from the cone of active constraint normals) at x - dense numpy + NNLS."""
    from scipy.optimize import nnls
    n = len(x)
    gx = np.asarray(g(x), float)
    feas, cols, act = 0.0, [], []
    eps = 1e-5
    if "con" in kkt:
        typ, a, d = kkt["con"]
        cv = float(a @ x - d)
        if typ == "eq":
            feas = max(feas, abs(cv))
            cols += [a, -a]
            act.append("eq")
        else:
            feas = max(feas, -cv)
            if cv <= eps * (1 + abs(d)):
                cols.append(a)
                act.append("ineq-active")
            else:
                act.append("ineq-inactive")
    nb = 0
    if "box" in kkt:
        lo, up = kkt["box"]
        feas = max(feas, float(np.max(lo - x)), float(np.max(x - up)))
        for i in range(n):
            e = np.zeros(n)
            e[i] = 1.0
            if x[i] - lo <= eps:
                cols.append(e)
                nb += 1
            if up - x[i] <= eps:
                cols.append(-e)
                nb += 1
        act.append("box-active=%d" % nb)
    if cols:
        stat = float(nnls(np.array(cols).T, gx)[1])
    else:
        stat = float(np.linalg.norm(gx))
    return max(feas, stat), "+".join(act)


def _eval_minimize(cell, res):
    import cuqi
    import scipy.optimize as opt
    n, k = cell["n"], cell["cat"]
    f, g = _objective(n, k)
    x0 = _wrapper_start(cell, n, k)
    x0type = cell["x0type"]
    xf = _x0facet(x0type)
    method, which = cell["method"], cell["which"]
    grad = g if cell["grad"] else None
    kwname = cell.get("kw")
    mk = (lambda: _min_kwargs(kwname, n, k, cell["grad"])) if kwname else (lambda: ({}, None))
    if kwname:
        xf += ",kwargs=" + kwname
    try:
        with _quiet():
            ref = opt.minimize(f, x0.copy() if x0type == "CUQIarray" else _as_rep(x0, x0type), jac=grad, method=method, **mk()[0])
    except Exception as e:
        ref = None      # SciPy itself refuses this start representation (e.g. float32 with the compiled TNC / SLSQP kernels)
        res.outcomes.add("scipy-refuses:%s:%s" % (method, type(e).__name__))
    has_jac = ref is not None and "jac" in ref
    has_nit = ref is not None and "nit" in ref
    facet = "method=%s" % method if (has_jac and has_nit) else "scipy-result-without-%s" % ("jac" if not has_jac else "nit")
    facet += xf
    res.state("%s:%s:%s%s" % (which, method, x0type, (":" + kwname) if kwname else ""))
    res.transitions += 1
    x0arg = _as_rep(x0, x0type)
    kwarg, kkt = mk()           # the wrapper gets its own keyword objects
    guard = _Guard(**{kk: v for kk, v in kwarg.items() if kk == "bounds"})
    if ref is None:
        try:
            with _quiet():
                if which == "minimize":
                    cuqi.solver.minimize(f, x0arg, gradfunc=grad, method=method, **kwarg).solve()
                else:
                    cuqi.solver.maximize(lambda x: -f(x), x0arg, gradfunc=(lambda x: -g(x)) if cell["grad"] else None, method=method, **kwarg).solve()
        except Exception:
            res.refused += 1
            res.nontrivial = False
            return
        res.fail("C16|%s|x|scipy-refuses%s" % (which, xf), "wrapper returned although SciPy refuses method=%r with this start" % (method,))
        return
    try:
        with _quiet():
            if which == "minimize":
                x, info = cuqi.solver.minimize(f, x0arg, gradfunc=grad, method=method, **kwarg).solve()
            else:
                nf = lambda x: -f(x)
                ng = (lambda x: -g(x)) if cell["grad"] else None
                x, info = cuqi.solver.maximize(nf, x0arg, gradfunc=ng, method=method, **kwarg).solve()
    except Exception as e:
        res.refused += 1
        res.outcomes.add("raises:%s" % type(e).__name__)
        res.fail("C16|%s|raises|%s" % (which, facet),
                 "wrapper raised %r where scipy.optimize.minimize(method=%r) returns x=%s" % (e, method, np.round(ref.x, 6).tolist()))
        return
    res.outcomes.add("%s:%s:%s" % (which, method, bool(ref.success)))
    res.evaluations += 1
    if not _start_unchanged(x0arg, x0, x0type):
        res.fail("C16|%s|start-vector-altered|x0=%s" % (which, _rep_class(x0type)), "the caller's start vector was modified by solve()")
    if kwname:
        _flag_altered(res, which, guard, "kwargs=" + kwname)
        if kkt is not None and bool(ref.success):
            # independent of SciPy: the strictly convex objective has ONE KKT point under the linear constraint / box
            res.evaluations += 1
            r, act = _kkt_residual(np.asarray(x, float), g, kkt)
            res.outcomes.add("kkt:%s:%s" % (kwname.replace(",tol", ""), act))
            lim = (1e-4 if "tol" in kwname else 5e-3) * (1.0 + np.linalg.norm(g(np.zeros(n))))
            if not r <= lim:
                res.fail("C16|%s|kkt|kwargs=%s" % (which, kwname.replace(",tol", "")),
                         "method=None, gradfunc=%s: returned x=%s is not the KKT point of the problem the keywords describe "
                         "(residual of stationarity + feasibility %.3e > %.1e); scipy.optimize.minimize with the same arguments returns %s"
                         % ("given" if cell["grad"] else "None", np.round(np.asarray(x, float), 6).tolist(), r, lim, np.round(ref.x, 6).tolist()))
    if cell["x0type"] == "CUQIarray":
        res.evaluations += 1
        if not isinstance(x, cuqi.array.CUQIarray) or x.geometry != x0arg.geometry:
            res.fail("C16|%s|x-type|x0=CUQIarray" % which, "solution for a CUQIarray start is %s" % type(x).__name__)
    sign_ok = (1.0, -1.0) if which == "maximize" else (1.0,)
    for nm, a, bb, signed in [("x", np.asarray(x), ref.x, False), ("func", info.get("func"), ref.fun, True),
                              ("grad", info.get("grad"), ref.get("jac"), True), ("nit", info.get("nit"), ref.get("nit"), False),
                              ("nfev", info.get("nfev"), ref.nfev, False), ("success", float(bool(info.get("success"))), float(bool(ref.success)), False),
                              ("message", info.get("message"), ref.message, False)]:
        res.evaluations += 1
        if nm == "message":
            ok = str(a) == str(bb)
        elif signed:
            ok = any(_same(a, s * np.asarray(bb, float)) for s in sign_ok) if bb is not None else a is None
        else:
            ok = _same(a, bb)
        if not ok:
            gf = "gradfunc=%s" % ("given" if cell["grad"] else "None")
            res.fail("C16|%s|%s|%s%s" % (which, nm, gf, xf), "method=%r: wrapper's %s = %r, SciPy's = %r" % (method, nm, a, bb))
            break      # report the first (most upstream) difference only
    res.sample = {"x": np.asarray(x), "scipy_x": ref.x}


def _eval_ls(cell, res):
    import cuqi
    from scipy.optimize import least_squares
    k = cell["cat"]
    r, J, starts = _lm_problem("expfit", k)
    x0 = starts[cell.get("x0start", 0)]
    x0type = cell["x0type"]
    xf = _x0facet(x0type)
    method, loss = cell["method"], cell["loss"]
    facet = "method=%s,loss=%s,jacfun=%s%s" % (method, loss, "given" if cell["jac"] else "None", xf)
    tol, maxit = 1e-8, 200
    try:
        ref = least_squares(r, x0.copy() if x0type == "CUQIarray" else _as_rep(x0, x0type), jac=J if cell["jac"] else "2-point",
                            method=method, loss=loss, xtol=tol, max_nfev=maxit)
    except Exception as e:
        ref = None   # SciPy itself refuses (e.g. method='lm' with a robust loss)
        res.outcomes.add("scipy-refuses:" + type(e).__name__)
    res.state(facet)
    res.transitions += 1
    x0arg = _as_rep(x0, x0type)
    try:
        x, info = cuqi.solver.LS(r, x0arg, jacfun=J if cell["jac"] else None, method=method, loss=loss, tol=tol, maxit=maxit).solve()
    except Exception as e:
        res.refused += 1
        res.outcomes.add("raises:%s" % type(e).__name__)
        if ref is not None:
            res.fail("C16|LS|raises|jacfun=%s%s" % ("given" if cell["jac"] else "None", xf),
                     "wrapper raised %r where scipy.optimize.least_squares (documented: 'If None, then the solver approximates "
                     "the Jacobian') returns x=%s" % (e, np.round(ref.x, 6).tolist()))
        else:
            res.nontrivial = False
        return
    if ref is None:
        res.fail("C16|LS|x|%s" % facet, "wrapper returned although SciPy refuses this configuration")
        return
    res.outcomes.add("ls:%s:%s:%d" % (method, loss, ref.status))
    res.evaluations += 1
    if not _start_unchanged(x0arg, x0, x0type):
        res.fail("C16|LS|start-vector-altered|x0=%s" % _rep_class(x0type), "the caller's start vector was modified by solve()")
    if cell["x0type"] == "CUQIarray":
        res.evaluations += 1
        if not isinstance(x, cuqi.array.CUQIarray) or x.geometry != x0arg.geometry:
            res.fail("C16|LS|x-type|x0=CUQIarray", "solution for a CUQIarray start is %s" % type(x).__name__)
    for nm, a, bb in [("x", np.asarray(x), ref.x), ("func", info.get("func"), ref.fun), ("jac", info.get("jac"), ref.jac),
                      ("nfev", info.get("nfev"), ref.nfev), ("success", float(bool(info.get("success"))), float(bool(ref.success)))]:
        res.evaluations += 1
        if not _same(a, bb):
            res.fail("C16|LS|%s|jacfun=%s%s" % (nm, "given" if cell["jac"] else "None", xf),
                     "%s: wrapper's %s = %r, SciPy's = %r" % (facet, nm, a, bb))
            break
    else:
        if str(info.get("message")) != str(ref.message):
            res.fail("C16|LS|message|jacfun=%s" % ("given" if cell["jac"] else "None"), "%s: wrapper's message differs from SciPy's" % facet)
    res.sample = {"x": np.asarray(x), "scipy_x": ref.x}


# ----------------------------------------------------------------------------------------
# the SAME argument objects re-used across consecutive solves (histories of length 2 on one set of objects)
# ----------------------------------------------------------------------------------------
# (value of b, representation of b, representation of scalar parameters)
REUSE_CTX_Q = [("cat", "float64", "scalar"), ("cat", "float64", "array"), ("int", "int64", "scalar"), ("int", "float32", "scalar")]
REUSE_CTX_T = ([("cat", "float64", p) for p in ("scalar", "array")]
               + [("int", r, "scalar") for r in ("float64", "int64", "int32", "float32", "list", "CUQIarray")]
               + [("int", r, "array") for r in ("int64", "float32")])
REUSE_MAXIT_CG, REUSE_TOL_CG = 400, 1e-12


def _reuse_alphabet(alpha, m, n):
    """Solve steps that can be applied to one set of least-squares argument objects (A, b, x0, P, shift, bounds, ...)."""
    q = alpha == "q"
    steps = []
    for form in ("matrix", "function"):
        for shift in (0.0, 0.5):
            steps.append({"solver": "CGLS", "form": form, "shift": shift})
    for pinv in (("explicit",) if q else ("explicit", "solve")):
        for form in ("matrix", "function"):
            for shift in (0.0, 0.5):
                steps.append({"solver": "PCGLS", "form": form, "shift": shift, "pinv": pinv})
    for solver in (("ISTA",) if q else ("ISTA", "FISTA")):
        if solver == "FISTA" and m <= n:
            continue        # momentum variant: 5e3 (square) / 4e4 (under-determined) iterations per solve - over-determined shapes only
        for form in ("matrix", "function"):
            for reg in ("l1", "box"):
                steps.append({"solver": solver, "form": form, "reg": reg})
    return steps


def _reuse_families(alpha, m, n):
    out = []
    for st in _reuse_alphabet(alpha, m, n):
        if st["solver"] not in out:
            out.append(st["solver"])
    return out


def _step_key(st):
    if "shift" in st:
        return "%s/%s/s=%g%s" % (st["solver"], st["form"], st["shift"], ("/" + st["pinv"]) if "pinv" in st else "")
    return "%s/%s/%s" % (st["solver"], st["form"], st["reg"])


def _reuse_cells(q, shapes, k):
    out = []
    alpha = "q" if q else "t"
    for (m, n) in shapes:
        for storage in (("dense",) if q else ("dense", "sparse")):
            # thorough, sparse storage: the two basic contexts and the zero / ones start only
            ctxs = REUSE_CTX_Q if q else (REUSE_CTX_T if storage == "dense" else [REUSE_CTX_Q[0], REUSE_CTX_Q[2]])
            for start in (("zero", "ones") if (q or storage == "sparse") else ("zero", "ones", "far")):
                for (bval, brep, par) in ctxs:
                    for first in _reuse_families(alpha, m, n):
                        out.append({"kind": "reuse", "fam": "lsq", "m": m, "n": n, "storage": storage, "start": start, "bval": bval,
                                    "brep": brep, "par": par, "first": first, "alpha": alpha, "cat": k})
    for prob in (("expfit", "quadpert") if q else ("expfit", "quadpert", "rosenbrock")):
        for start in (0, 1):
            out.append({"kind": "reuse", "fam": "lm", "prob": prob, "start": start, "cat": k})
    for first in range(len(_wrap_alphabet())):
        for x0val in ("dyadic", "zero"):
            out.append({"kind": "reuse", "fam": "wrap", "first": first, "x0val": x0val, "n": 3, "cat": k})
    return out


def _eval_reuse_lsq(cell, res):
    """One set of argument objects (A dense/sparse and the function form built on it, b, x0, preconditioner, shift values,
    step size, L1 threshold vector, box bounds) is handed to TWO consecutive solves s1 -> s2, for every s1 of the cell's
    solver family and every s2 of the whole alphabet (and s1 -> the same solver object solved again).  Oracle: after every
    solve each argument object has the bytes it had before (argument-altered|arg=..), and the point returned by s2 satisfies
    the dense optimality system of s2's problem evaluated from the harness's own PRISTINE copies of A and b - reported when
    the very same step on fresh, equal objects passes (so that it is the history that matters) - and agrees with that
    fresh run.  Every step is also judged as a FIRST solve (fresh objects): facet b-representation (float64 / integer /
    float32 / list / CUQIarray; integer-valued b) and parameter representation (python scalars / arrays)."""
    import cuqi
    from cuqi.solver._solver import CGLS, PCGLS, FISTA, ProximalL1, ProjectBox
    m, n, k = cell["m"], cell["n"], cell["cat"]
    storage, brep, par = cell["storage"], cell["brep"], cell["par"]
    A = refs.full_matrix(m, n, k)
    bf = refs.dyadic_vec(m, k + 1) if cell["bval"] == "cat" else refs.dyadic_vec(m, k + 1, scale=1.0)   # 'int': integer valued
    x0 = _start(cell["start"], n, k)
    arr = par == "array"
    t = 0.99 / float(np.linalg.svd(A, compute_uv=False)[0] ** 2)
    lam = 1.0
    _, _, lo, up = _box("vector", n)
    rhs = A.T @ bf
    scale = max(1.0, float(np.linalg.norm(rhs)))
    rc = _rep_class(brep)
    ffac = "b=%s%s" % (rc, ",par=array" if arr else "")
    strict = brep == "float64" and not arr       # documented representations: a raise is a violation
    pgref = {}

    def pg_ref(reg):
        if reg not in pgref:
            pgref[reg] = _exact_min(A, bf, "l1" if reg == "l1" else "box", lam if reg == "l1" else 0.0, lo, up)
        return pgref[reg]

    def make(default=False):
        """A fresh set of argument objects; default=True: the same VALUES in the documented representation (float64 b, python
        scalars) - the twin against which a representation is judged."""
        ar = arr and not default
        o = {"A": _store(A, storage), "b": _as_rep(bf, "float64" if default else brep), "x0": x0.copy(), "P": _P("lowertri", n, k),
             "shift0": np.array(0.0) if ar else 0.0, "shift": np.array(0.5) if ar else 0.5,
             "stepsize": np.array(t) if ar else t, "gamma": np.full(n, lam * t) if ar else None,
             "lower": lo.copy(), "upper": up.copy()}
        o["fun"] = _funform(o["A"])
        return o

    def guard_of(o):
        return _Guard(**{kk: v for kk, v in o.items() if kk != "fun"})

    def comp(st):
        return "FISTA" if st["solver"] in ("ISTA", "FISTA") else st["solver"]

    def build(st, o):
        op = o["A"] if st["form"] == "matrix" else o["fun"]
        if st["solver"] == "CGLS":
            return CGLS(op, o["b"], o["x0"], REUSE_MAXIT_CG, REUSE_TOL_CG, o["shift"] if st["shift"] else o["shift0"])
        if st["solver"] == "PCGLS":
            old = cuqi.config.MAX_DIM_INV
            try:
                if st["pinv"] == "solve":
                    cuqi.config.MAX_DIM_INV = 1
                return PCGLS(op, o["b"], o["x0"], o["P"], REUSE_MAXIT_CG, REUSE_TOL_CG, o["shift"] if st["shift"] else o["shift0"])
            finally:
                cuqi.config.MAX_DIM_INV = old
        adaptive = st["solver"] == "FISTA"
        if st["reg"] == "l1":
            prox = (lambda z, g: ProximalL1(z, o["gamma"])) if o["gamma"] is not None else (lambda z, g: ProximalL1(z, lam * g))
        else:
            prox = lambda z, g: ProjectBox(z, o["lower"], o["upper"])
        return FISTA(op, o["b"], o["x0"], prox, maxit=_pg_maxit(st), stepsize=o["stepsize"], abstol=1e-9 if adaptive else 1e-11,
                     adaptive=adaptive)

    def run(st, o, solver=None):
        """('ok', x, it, solver) or ('raised', exception, None, solver)"""
        try:
            if solver is None:
                solver = build(st, o)
            x, it = solver.solve()
            return "ok", x, int(it), solver
        except Exception as e:
            return "raised", e, None, solver

    def judge(st, x, it):
        """None (passes), 'maxit' (prox-gradient run that reached maxit: counted only) or (operation, message)."""
        try:
            xa = np.asarray(x, float).ravel()
            if xa.shape != (n,):
                raise ValueError("shape %s" % (xa.shape,))
        except Exception as e:
            return ("result-unusable", "returned object unusable as a vector: %r" % (e,)), None
        if st["solver"] in ("CGLS", "PCGLS"):
            shift = st["shift"]
            H = A.T @ A + shift * np.eye(n)
            if it >= REUSE_MAXIT_CG:
                return ("no-convergence", "did not meet its own stopping rule within %d iterations" % REUSE_MAXIT_CG), xa
            rn = float(np.linalg.norm(rhs - H @ xa)) if np.all(np.isfinite(xa)) else float("inf")
            if not rn <= 1e-7 * max(scale, float(np.linalg.norm(H @ xa))):
                return ("normal-equations", "stopped after %d iterations but ||A^T(b-Ax)-s x|| = %.3g (scale %.3g) with the pristine "
                        "A, b; x=%s" % (it, rn, scale, np.round(xa, 6).tolist())), xa
            if (m >= n or shift > 0) and not close(xa, np.linalg.solve(H, rhs), 1e-7):
                return ("normal-equations", "returned point differs from the dense solution of the normal equations"), xa
            return None, xa
        if it >= _pg_maxit(st):
            return "maxit", xa
        return _pg_judge(A, bf, st["reg"], lam, lo, up, t, pg_ref(st["reg"]), xa), xa

    alphabet = _reuse_alphabet(cell["alpha"], m, n)
    own = [s for s in alphabet if s["solver"] == cell["first"]]
    seen = set()

    def fail(sig, msg, **kw):
        if sig not in seen:
            seen.add(sig)
            res.fail(sig, msg, **kw)

    # ---- (1) every step as the first solve on fresh argument objects
    fresh = {}
    for st in alphabet:
        key = _step_key(st)
        o = make()
        g = guard_of(o)
        status, x, it, _ = run(st, o)
        mine = st in own
        if mine:
            res.state("%s|%s|%s" % (key, brep, par))
            res.traces += 1
            _flag_altered(res, comp(st), g, "%s, start %s, %s b" % (key, cell["start"], brep), seen)
        if status == "raised":
            fresh[key] = ("raised", None)
            if mine:
                res.refused += 1
                res.outcomes.add("first:%s:raises:%s" % (st["solver"], type(x).__name__))
                if strict:
                    fail("C16|%s|raises|%s" % (comp(st), ffac), "%s raised %r on a documented input (start %s)" % (key, x, cell["start"]))
            continue
        v, xa = judge(st, x, it)
        fresh[key] = ("maxit" if v == "maxit" else ("ok" if v is None else "bad"), xa)
        if not mine:
            continue
        res.transitions += it
        res.evaluations += 1
        res.outcomes.add("first:%s:%s:%s" % (st["solver"], rc, fresh[key][0]))
        if v == "maxit":
            res.count("maxit-reached")
        elif v is None:
            res.count("first-solve-converged")
        else:
            if not strict:
                # representation facet: blamed only when the same values in the documented representation are solved correctly
                # (otherwise it is not a representation matter; the float64 cells report it)
                ts, tx, tit, _ = run(st, make(default=True))
                if ts != "ok" or judge(st, tx, tit)[0] is not None:
                    res.count("float64-twin-not-usable")
                    continue
            fail("C16|%s|%s|%s" % (comp(st), v[0], ffac), "%s, %s b (%s-valued), %s parameters, start %s: %s%s"
                 % (key, brep, "integer" if cell["bval"] == "int" else "dyadic", par, cell["start"], v[1],
                    "" if strict else " (the same values as float64 b with python-scalar parameters are solved correctly)"), x=xa)

    # ---- (2) histories on ONE set of argument objects: s1 -> solve() again; s1 -> s2
    for s1 in own:
        k1 = _step_key(s1)
        hist = [("again", s1)] + [("next", s2) for s2 in alphabet]
        for (mode, s2) in hist:
            k2 = _step_key(s2)
            res.traces += 1
            o = make()
            g1 = guard_of(o)
            st1, x1, it1, solver1 = run(s1, o)
            _flag_altered(res, comp(s1), g1, "%s, start %s" % (k1, cell["start"]), seen)
            if st1 == "ok":
                res.transitions += it1
            if mode == "again" and solver1 is None:
                continue
            g2 = guard_of(o)
            st2, x2, it2, _ = run(s2, o, solver1 if mode == "again" else None)
            hname = "%s>%s" % (k1, "solve-again" if mode == "again" else k2)
            res.state("%s|%s|%s" % (hname, brep, par))
            _flag_altered(res, comp(s2), g2, "history %s, start %s" % (hname, cell["start"]), seen)
            # one signature per (second solver, history kind): which optimality condition fails is said in the message
            hsig = "C16|%s|%s" % (comp(s2), "solve-called-twice|same-solver-object" if mode == "again" else "reused-arguments|after=%s" % s1["solver"])
            f_status, f_x = fresh[k2]
            if st2 == "raised":
                res.refused += 1
                res.outcomes.add("%s:raises:%s" % (mode, type(x2).__name__))
                if f_status != "raised" and st1 == "ok":
                    fail(hsig, "history %s on one set of argument objects (start %s, %s b): the second "
                         "solve raised %r; the same solve on fresh, equal objects returns" % (hname, cell["start"], brep, x2))
                continue
            res.transitions += it2
            res.evaluations += 2
            v, xa = judge(s2, x2, it2)
            if v == "maxit":
                res.count("maxit-reached")
                continue
            if v is not None:
                res.outcomes.add("%s:%s:bad" % (mode, s2["solver"]))
                if f_status == "ok":
                    fail(hsig, "history %s on one set of argument objects (A, b, x0, ... ; start %s, %s b): the second solve fails "
                         "the optimality system evaluated with the pristine copies of A and b although the same solve on fresh, equal "
                         "objects passes: %s: %s" % (hname, cell["start"], brep, v[0], v[1]), x=xa, x_fresh=f_x)
                continue
            res.count("second-solve-converged")
            res.outcomes.add("%s:%s>%s:ok" % (mode, s1["solver"], s2["solver"]))
            if f_status == "ok" and not close(xa, f_x, 1e-7):
                fail(hsig, "history %s (start %s): the returned point differs from the one "
                     "the same solve returns on fresh, equal argument objects" % (hname, cell["start"]), x=xa, x_fresh=f_x)
    if res.branches.get("second-solve-converged", 0) == 0:
        res.nontrivial = False
    res.sample = {"first_family": cell["first"], "alphabet": [_step_key(s) for s in alphabet], "b": bf, "b_representation": brep}


def _pg_maxit(st):
    return 200000 if st["solver"] == "FISTA" else 50000


def _pg_judge(A, b, reg, lam, lo, up, t, ref, x):
    """None, or (operation, message): first optimality condition of min 1/2||Ax-b||^2 + regulariser (L1 with strength lam /
    indicator of the box [lo, up]) that the point x violates: prox-gradient fixed point, KKT system, enumerated exact minimiser."""
    (xs, Fs), F = ref
    m, n = A.shape
    if not np.all(np.isfinite(x)):
        return "fixed-point", "returned point is not finite"
    g = A.T @ (A @ x - b)
    px = _ref_soft(x - t * g, lam * t) if reg == "l1" else _ref_clip(x - t * g, lo, up)
    fp = float(np.linalg.norm(x - px))
    if fp > 1e-7 * max(1.0, float(np.max(np.abs(x)))):
        return "fixed-point", "||x - prox(x - t A^T(Ax-b))|| = %.3g" % fp
    kt = 1e-6 * max(1.0, float(np.max(np.abs(g))))
    if reg == "l1":
        nz = np.abs(x) > 1e-7
        viol = max([0.0] + list(np.abs(g[nz] + lam * np.sign(x[nz]))) + list(np.maximum(np.abs(g[~nz]) - lam, 0)))
        feas = True
    else:
        feas = bool(np.all(x >= lo - 1e-9) and np.all(x <= up + 1e-9))
        atlo = np.abs(x - lo) <= 1e-7
        atup = np.abs(x - up) <= 1e-7
        free = ~atlo & ~atup
        viol = max([0.0] + list(np.abs(g[free])) + list(np.maximum(-g[atlo & ~atup], 0)) + list(np.maximum(g[atup & ~atlo], 0)))
    if not feas or viol > kt:
        return "kkt", "returned point violates the optimality system (feasible=%s, KKT violation %.3g)" % (feas, viol)
    Fx = F(x)
    if Fx > Fs + 1e-8 * (1 + abs(Fs)):
        return "not-a-minimiser", "objective %.12g at the returned point > %.12g at the enumerated minimiser" % (Fx, Fs)
    if m >= n and not close(x, xs, 1e-6):
        return "not-a-minimiser", "strictly convex problem: returned point differs from the enumerated unique minimiser"
    return None


def _eval_reuse_lm(cell, res):
    """LM: the same start object handed to two consecutive solves (documented sparse/Jacobian pairs, all ordered pairs) and one
    solver object solved twice; every returned point must be stationary (as in the base cells) and agree with the run on a fresh
    start object; the start object keeps its bytes."""
    import scipy.sparse as sp
    from cuqi.solver import LM
    k = cell["cat"]
    r, J, starts = _lm_problem(cell["prob"], k)
    x0 = np.asarray(starts[cell["start"]], float)
    g0n = max(1.0, float(np.linalg.norm(J(x0).T @ r(x0))))
    maxit = 3000
    alphabet = [(True, "csr"), (False, "dense")]
    seen = set()

    def build(st, xobj):
        jac = (lambda x: sp.csr_matrix(J(x))) if st[1] == "csr" else J
        return LM(r, xobj, jac, maxit=maxit, tol=1e-12, gradtol=1e-9, sparse=st[0])

    def run(st, xobj, solver=None):
        try:
            if solver is None:
                solver = build(st, xobj)
            x, info = solver.solve()
            return "ok", np.asarray(x, float).ravel(), info, solver
        except Exception as e:
            return "raised", e, None, solver

    def judge(x, info):
        it = int(info["nfev"])
        if it >= maxit:
            return "maxit"
        if x.shape != x0.shape or not np.all(np.isfinite(x)):
            return ("stationarity", "returned point %s is not a finite vector of the right shape" % (x.tolist(),))
        gn = float(np.linalg.norm(J(x).T @ r(x)))
        if gn > 1e-7 * g0n:
            return ("stationarity", "stopped after %d<maxit iterations but ||J^T r|| = %.3g (initially %.3g)" % (it, gn, g0n))
        try:
            rf = np.asarray(info["func"], float).ravel()
            Jf = info["Jac"]
            Jf = np.asarray(Jf.todense()) if hasattr(Jf, "todense") else np.asarray(Jf, float)
            if not close(rf, r(x), 1e-9) or not close(Jf, J(x), 1e-9):
                return ("info", "info['func']/info['Jac'] are not the residual/Jacobian at the returned point")
        except Exception as e:
            return ("info", "info unusable: %r" % (e,))
        return None

    fresh = {}
    for st in alphabet:
        status, x, info, _ = run(st, x0.copy())
        fresh[st] = (("ok" if judge(x, info) is None else "other"), x) if status == "ok" else ("raised", None)
    for s1 in alphabet:
        for (mode, s2) in [("again", s1)] + [("next", s2) for s2 in alphabet]:
            res.traces += 1
            xobj = x0.copy()
            g = _Guard(x0=xobj)
            st1, x1, info1, solver1 = run(s1, xobj)
            _flag_altered(res, "LM", g, "sparse=%s,jac=%s" % s1, seen)
            if st1 == "ok":
                res.transitions += int(info1["nfev"])
            if mode == "again" and solver1 is None:
                continue
            st2, x2, info2, _ = run(s2, xobj, solver1 if mode == "again" else None)
            hname = "sparse=%s,jac=%s>%s" % (s1[0], s1[1], "solve-again" if mode == "again" else "sparse=%s,jac=%s" % s2)
            res.state(hname)
            _flag_altered(res, "LM", g, "history " + hname, seen)
            hfac = "solve-called-twice|same-solver-object" if mode == "again" else "reused-arguments|start-object"
            f_status, f_x = fresh[s2]
            if st2 == "raised":
                res.refused += 1
                if f_status != "raised" and st1 == "ok" and hfac not in seen:
                    seen.add(hfac)
                    res.fail("C16|LM|%s" % hfac, "history %s on one start object: the second solve raised %r; the same solve "
                             "from a fresh, equal start object returns" % (hname, x2))
                continue
            res.transitions += int(info2["nfev"])
            res.evaluations += 2
            v = judge(x2, info2)
            if v == "maxit":
                res.count("maxit-reached")
                continue
            if v is not None:
                if f_status == "ok" and hfac not in seen:
                    seen.add(hfac)
                    res.fail("C16|LM|%s" % hfac, "history %s on one start object %s: %s: %s (the same solve from a fresh, equal "
                             "start object passes)" % (hname, x0.tolist(), v[0], v[1]), x=x2, x_fresh=f_x)
                continue
            res.count("second-solve-converged")
            res.outcomes.add("%s:%s:it=%d" % (cell["prob"], hname, int(info2["nfev"])))
            if f_status == "ok" and not close(x2, f_x, 1e-6) and hfac not in seen:
                seen.add(hfac)
                res.fail("C16|LM|%s" % hfac, "history %s: the returned point differs from the one reached from a "
                         "fresh, equal start object" % hname, x=x2, x_fresh=f_x)
    if res.branches.get("second-solve-converged", 0) == 0:
        res.nontrivial = False


def _wrap_alphabet():
    return [("L_BFGS_B", "none"), ("L_BFGS_B", "bounds"), ("minimize", "L-BFGS-B+bounds"), ("minimize", "BFGS"), ("maximize", "BFGS")]


def _eval_reuse_wrap(cell, res):
    """SciPy wrappers: one start object and one bounds ARRAY (n x 2 ndarray) handed to two consecutive wrapper solves (first step =
    the cell's, second = every step of the alphabet, plus the same wrapper object solved twice).  Oracle: the second solve
    returns what the direct SciPy call with pristine, equal arguments returns; start and bounds objects keep their bytes."""
    import cuqi
    import scipy.optimize as opt
    from scipy.optimize import fmin_l_bfgs_b
    from cuqi.solver import L_BFGS_B
    n, k = cell["n"], cell["cat"]
    f, g = _objective(n, k)
    x0 = _wrapper_start(cell, n, k)
    bnd = np.array([(-0.25, 0.5)] * n)
    alphabet = _wrap_alphabet()
    seen = set()

    def ref(st):
        if st == ("L_BFGS_B", "none"):
            return fmin_l_bfgs_b(f, x0.copy(), fprime=g, approx_grad=0)[0]
        if st == ("L_BFGS_B", "bounds"):
            return fmin_l_bfgs_b(f, x0.copy(), fprime=g, approx_grad=0, bounds=bnd.copy())[0]
        if st == ("minimize", "L-BFGS-B+bounds"):
            return opt.minimize(f, x0.copy(), jac=g, method="L-BFGS-B", bounds=bnd.copy()).x
        return opt.minimize(f, x0.copy(), jac=g, method="BFGS").x

    def build(st, xobj, bobj):
        if st == ("L_BFGS_B", "none"):
            return L_BFGS_B(f, xobj, gradfunc=g)
        if st == ("L_BFGS_B", "bounds"):
            return L_BFGS_B(f, xobj, gradfunc=g, bounds=bobj)
        if st == ("minimize", "L-BFGS-B+bounds"):
            return cuqi.solver.minimize(f, xobj, gradfunc=g, method="L-BFGS-B", bounds=bobj)
        if st == ("minimize", "BFGS"):
            return cuqi.solver.minimize(f, xobj, gradfunc=g, method="BFGS")
        return cuqi.solver.maximize(lambda x: -f(x), xobj, gradfunc=lambda x: -g(x), method="BFGS")

    def run(st, xobj, bobj, solver=None):
        try:
            if solver is None:
                solver = build(st, xobj, bobj)
            x, info = solver.solve()
            return "ok", np.asarray(x, float), solver
        except Exception as e:
            return "raised", e, solver

    refs_ = {}
    for st in alphabet:
        try:
            refs_[st] = np.asarray(ref(st), float)
        except Exception:
            refs_[st] = None        # SciPy itself refuses: nothing to compare
    s1 = alphabet[cell["first"]]
    for (mode, s2) in [("again", s1)] + [("next", s2) for s2 in alphabet]:
        res.traces += 1
        xobj, bobj = x0.copy(), bnd.copy()
        gd = _Guard(x0=xobj, bounds=bobj)
        st1, x1, solver1 = run(s1, xobj, bobj)
        _flag_altered(res, s1[0], gd, "%s(%s)" % s1, seen)
        res.transitions += 1
        if mode == "again" and solver1 is None:
            continue
        st2, x2, _ = run(s2, xobj, bobj, solver1 if mode == "again" else None)
        hname = "%s(%s)>%s" % (s1[0], s1[1], "solve-again" if mode == "again" else "%s(%s)" % s2)
        res.state(hname)
        res.transitions += 1
        _flag_altered(res, s2[0], gd, "history " + hname, seen)
        hfac = "solve-called-twice|same-solver-object" if mode == "again" else "reused-arguments|start-and-bounds-objects"
        if refs_[s2] is None:
            res.count("scipy-refuses")
            continue
        if st2 == "raised":
            res.refused += 1
            if st1 == "ok" and ("raises", s2[0]) not in seen:
                seen.add(("raises", s2[0]))
                res.fail("C16|%s|%s" % (s2[0], hfac), "history %s on one start / bounds object: the second solve raised %r where "
                         "the direct SciPy call with equal arguments returns" % (hname, x2))
            continue
        res.evaluations += 1
        res.count("second-solve-returned")
        res.outcomes.add(hname)
        if not _same(x2, refs_[s2]) and ("x", s2[0]) not in seen:
            seen.add(("x", s2[0]))
            res.fail("C16|%s|%s" % (s2[0], hfac), "history %s on one start / bounds object: the second solve returns %s, the direct "
                     "SciPy call with pristine equal arguments %s" % (hname, np.asarray(x2).tolist(), refs_[s2].tolist()))
    if res.branches.get("second-solve-returned", 0) == 0:
        res.nontrivial = False


def _eval_reuse(cell, res):
    if cell["fam"] == "lsq":
        _eval_reuse_lsq(cell, res)
    elif cell["fam"] == "lm":
        _eval_reuse_lm(cell, res)
    elif cell["fam"] == "wrap":
        _eval_reuse_wrap(cell, res)
    else:
        raise ValueError(cell["fam"])


# ----------------------------------------------------------------------------------------
# projections and soft-thresholding on a complete lattice
# ----------------------------------------------------------------------------------------
def _lattice(d, fine):
    if d == 1:
        ax = np.arange(-2.0, 2.0 + 1e-9, 0.125 if not fine else 0.0625)
    elif d == 2:
        ax = np.arange(-1.5, 1.5 + 1e-9, 0.25 if not fine else 0.125)
    else:
        ax = np.arange(-1.5, 1.5 + 1e-9, 0.5 if not fine else 0.25)
    pts = np.array(list(itertools.product(ax, repeat=d)))
    return ax, pts


def _eval_prox(cell, res):
    from cuqi.solver import ProjectNonnegative, ProjectBox, ProximalL1
    d, op, par = cell["d"], cell["op"], cell["par"]
    parr = cell.get("parrep") == "array"
    pargs = {}
    ax, Z = _lattice(d, cell["fine"])
    if op == "nonneg":
        fn = lambda x: ProjectNonnegative(x)
        lo, up = np.zeros(d), np.full(d, np.inf)
        name, facet = "ProjectNonnegative", "d=%d" % d
    elif op == "box":
        la, ua, lo, up = _box(par, d)
        la_s, ua_s = la, ua
        twin = lambda x: ProjectBox(x, la_s, ua_s)
        if parr:        # scalar bounds handed over as 0-d arrays
            la, ua = (None if la is None else np.array(la, dtype=float)), (None if ua is None else np.array(ua, dtype=float))
        pargs = {"lower": la, "upper": ua}
        fn = lambda x: ProjectBox(x, la, ua)
        name, facet = "ProjectBox", "box=%s" % par
    else:
        gam = float(par)
        garg = np.full(d, gam) if parr else gam        # threshold as a vector (one entry per coordinate, all equal)
        pargs = {"gamma": garg}
        twin = lambda x: ProximalL1(x, gam)
        fn = lambda x: ProximalL1(x, garg)
        name, facet = "ProximalL1", "gamma%s0" % (">" if gam > 0 else "=")
    if parr:
        facet += ",par=array"
    guard = _Guard(**pargs)
    if op != "l1":
        feas = np.all((Z >= lo) & (Z <= up), axis=1)
        Zf = Z[feas]
        res.nontrivial = bool(len(Zf) > 0 and len(Zf) < len(Z))
    failed = set()
    pending = []
    twin_bad = False        # parameter-as-array cells: does the python-scalar twin deviate from the closed form as well?

    def fail(kind, msg, **kw):
        if kind not in failed:
            failed.add(kind)
            pending.append((kind, msg, kw))

    def flush():
        # a parameter-as-array cell blames the representation only when the scalar twin is exact on the whole lattice
        # (otherwise the scalar cell reports the defect); an altered parameter object is always reported
        for (kind, msg, kw) in pending:
            if parr and twin_bad and kind != "argument-altered":
                res.count("scalar-twin-also-fails")
                continue
            res.fail("C16|%s|%s|%s" % (name, kind, facet), msg, **kw)
        del pending[:]

    nchanged = 0
    for x in Z:
        res.transitions += 1
        xin = x.copy()
        try:
            p = np.asarray(fn(xin), float)
        except Exception as e:
            if parr and op == "l1":     # documented: 'gamma : scale parameter' - a vector of thresholds may be refused
                res.refused += 1
                res.outcomes.add("gamma-array-refused:" + type(e).__name__)
                res.nontrivial = False
                break
            fail("raises", "raised %r at x=%s" % (e, x.tolist()))
            break
        if not np.array_equal(xin, x):
            fail("input-altered", "input vector modified in place")
        if p.shape != x.shape:
            fail("shape", "output shape %s for input shape %s" % (p.shape, x.shape))
            break
        if op == "l1":
            ref = _ref_soft(x, gam)
        else:
            ref = _ref_clip(x, lo, up)
        if not close(p, ref, 1e-12):
            fail("closed-form", "P(%s) = %s, coordinate-wise closed form gives %s" % (x.tolist(), p.tolist(), ref.tolist()), x=x)
        if parr and not twin_bad:
            try:
                ps = np.asarray(twin(x.copy()), float)
                twin_bad = ps.shape != x.shape or not close(ps, ref, 1e-12)
            except Exception:
                twin_bad = True
        nchanged += int(not np.array_equal(p, x))
        # variational characterisation against every lattice competitor
        if op == "l1":
            obj = lambda z: 0.5 * np.sum((z - x) ** 2, axis=-1) + gam * np.sum(np.abs(z), axis=-1)
            comp = Z
        else:
            obj = lambda z: np.sum((z - x) ** 2, axis=-1)
            comp = Zf
            if np.any(p < lo - 1e-12) or np.any(p > up + 1e-12):
                fail("infeasible", "P(%s) = %s lies outside the set" % (x.tolist(), p.tolist()), x=x)
        res.evaluations += len(comp)
        if len(comp):
            vals = obj(comp)
            j = int(np.argmin(vals))
            if vals[j] < obj(p) - 1e-12:
                fail("variational", "lattice point %s is %s than P(%s) = %s" %
                     (comp[j].tolist(), "better (prox objective)" if op == "l1" else "closer", x.tolist(), p.tolist()), x=x)
        # idempotence of projections
        if op != "l1":
            pp = np.asarray(fn(p.copy()), float)
            if not close(pp, p, 1e-12):
                fail("idempotence", "P(P(x)) != P(x) at x=%s" % x.tolist())
    # the parameter objects (bounds / threshold) were shared by ALL lattice inputs: they still have the bytes they had
    for nm in guard.altered():
        fail("argument-altered", "the caller's `%s` object was modified by the operator" % nm)
    res.evaluations += 1
    # array_like input (list) and a batch of columns, as the samplers use them
    try:
        res.transitions += 1
        xl = Z[len(Z) // 3].tolist()
        pl = np.asarray(fn(xl), float)
        ref = _ref_soft(np.array(xl), gam) if op == "l1" else _ref_clip(np.array(xl), lo, up)
        if not close(pl, ref, 1e-12):
            fail("closed-form", "list input gives %s, closed form %s" % (pl.tolist(), ref.tolist()))
    except Exception as e:
        res.refused += 1
        res.outcomes.add("list-refused:" + type(e).__name__)
    flush()
    res.state("%s:%s:d=%d%s" % (name, par, d, ":par=array" if parr else ""))
    res.outcomes.add("%s:%s:d=%d:moved=%d/%d" % (name, par, d, nchanged, len(Z)))
    res.sample = {"lattice_axis": ax, "inputs": len(Z), "moved": nchanged}


# ----------------------------------------------------------------------------------------
def eval_cell(cell):
    res = CellResult(cell)
    kind = cell["kind"]
    if kind in ("cgls", "pcgls"):
        _eval_cg(cell, res)
    elif kind == "fista":
        _eval_fista(cell, res)
    elif kind == "lm":
        _eval_lm(cell, res)
    elif kind == "lbfgsb":
        _eval_lbfgsb(cell, res)
    elif kind == "minimize":
        _eval_minimize(cell, res)
    elif kind == "ls":
        _eval_ls(cell, res)
    elif kind == "prox":
        _eval_prox(cell, res)
    elif kind == "reuse":
        _eval_reuse(cell, res)
    else:
        raise ValueError(kind)
    return res
