"""C03 helper: composite objects (Likelihood through forward models and domain geometries, Posterior,
MultipleLikelihoodPosterior, stacked joint).  Only used by checks/c03.py.

All user-supplied ingredients (Jacobians, adjoints, geometry.gradient, PDE gradients) are correct by
construction (closed forms of the harness' own toy maps); what is under test is the library's wiring:
Gaussian/Lognormal likelihood branch, Model.gradient chain rule, Likelihood, Posterior and
MultipleLikelihoodPosterior sum rule, and the finite-difference switch."""
import numpy as np
import scipy.sparse as sp
from vfw import refs
from checks._c03_engine import Case
from checks import _c03_objects as O


# ------------------------------------------------------------------------------------------
# geometries
# ------------------------------------------------------------------------------------------
def _img_shape(p):
    return (2, p // 2) if (p % 2 == 0 and p >= 4) else (p, 1)


def make_domain_geometry(kind, p):
    import cuqi
    G = cuqi.geometry
    if kind == "default":
        return G._DefaultGeometry1D(p)
    if kind == "continuous1d":
        return G.Continuous1D(p)
    if kind == "discrete":
        return G.Discrete(["v%d" % i for i in range(p)])
    if kind == "image2d":
        return G.Image2D(_img_shape(p))
    if kind == "image2dF":
        return G.Image2D(_img_shape(p), order="F")
    if kind in ("mapped", "mapped-usergrad"):
        g = G.MappedGeometry(G.Continuous1D(p), map=lambda x: 2 * x, imap=lambda x: x / 2)
        if kind.endswith("-usergrad"):
            g.gradient = lambda direction, wrt: 2 * np.asarray(direction, float)
        return g
    if kind == "mappedsq-usergrad":
        g = G.MappedGeometry(G.Continuous1D(p), map=lambda x: x ** 2, imap=lambda x: np.sqrt(x))
        g.gradient = lambda direction, wrt: 2 * np.asarray(wrt, float) * np.asarray(direction, float)
        return g
    if kind == "mappedexp-usergrad":
        g = G.MappedGeometry(G.Continuous1D(p), map=lambda x: np.exp(0.5 * x), imap=lambda x: 2 * np.log(x))
        g.gradient = lambda direction, wrt: 0.5 * np.exp(0.5 * np.asarray(wrt, float)) * np.asarray(direction, float)
        return g
    if kind in ("kl", "kl-usergrad"):
        g = G.KLExpansion(np.linspace(0, 1, p + 2), decay_rate=1.5, normalizer=2.0, num_modes=p)
    elif kind in ("step", "step-usergrad"):
        g = G.StepExpansion(np.linspace(0, 1, 2 * p + 1), n_steps=p)
    else:
        raise ValueError(kind)
    if kind.endswith("-usergrad"):
        # user-supplied derivative of the (linear) par2fun map, built from the geometry's own map on the basis
        J = np.column_stack([np.asarray(g.par2fun(e), float).ravel() for e in np.eye(p)])
        g.gradient = lambda direction, wrt, J=J: J.T @ np.asarray(direction, float).ravel()
    return g


def make_range_geometry(kind, r):
    import cuqi
    G = cuqi.geometry
    if kind == "default":
        return G._DefaultGeometry1D(r)
    if kind == "continuous1d":
        return G.Continuous1D(r)
    if kind == "image2d":
        return G.Image2D(_img_shape(r))
    if kind == "mapped":
        return G.MappedGeometry(G.Continuous1D(r), map=lambda x: 2 * x, imap=lambda x: x / 2)
    raise ValueError(kind)


DOMAIN_GEOMS = ["default", "continuous1d", "discrete", "image2d", "image2dF", "mapped", "mapped-usergrad", "mappedsq-usergrad",
                "mappedexp-usergrad", "kl", "kl-usergrad", "step", "step-usergrad"]
RANGE_GEOMS = ["default", "continuous1d", "image2d", "mapped"]
MODEL_KINDS = ["matrix", "funadj", "jac", "dirjac", "nograd", "pde-jac", "pde-grad", "pde-none", "pde-time-grad"]


# ------------------------------------------------------------------------------------------
# forward models
# ------------------------------------------------------------------------------------------
def make_model(kind, G, R, k):
    """Forward model acting on the *function values* of the domain geometry G, output = function values of R."""
    import cuqi
    fshape = tuple(G.fun_shape)
    n = int(np.prod(fshape))
    rshape = tuple(R.fun_shape)
    r = int(np.prod(rshape))
    A = 0.5 * refs.full_matrix(r, n, k)
    B = 0.25 * refs.full_matrix(r, n, k + 1)

    # A user Jacobian has one column per *parameter*; the toy maps below differentiate w.r.t. the C-order
    # flattened function values z.  For image geometries z = Perm @ par (a permutation for order="F").
    if len(fshape) == 2:
        Perm = np.column_stack([np.asarray(G.par2fun(e), float).ravel() for e in np.eye(G.par_dim)])
    else:
        Perm = np.eye(n)

    def z_(x):
        return np.asarray(x, float).ravel()

    def out_(y):
        return np.asarray(y, float).reshape(rshape)

    def forward_lin(x):
        return out_(A @ z_(x))

    def adjoint_lin(y):
        return (A.T @ z_(y)).reshape(fshape)

    def forward_nl(x):
        z = z_(x)
        return out_(A @ z + 0.5 * (B @ z) ** 2)

    def jac_nl(x):
        z = z_(x)
        return A + (B @ z)[:, None] * B

    def dirjac_nl(direction, wrt):
        return (z_(direction) @ jac_nl(wrt)).reshape(fshape)

    if kind == "matrix":
        return cuqi.model.LinearModel(A, range_geometry=R, domain_geometry=G)
    if kind == "funadj":
        return cuqi.model.LinearModel(forward_lin, adjoint=adjoint_lin, range_geometry=R, domain_geometry=G)
    if kind == "jac":
        return cuqi.model.Model(forward_nl, R, G, jacobian=lambda x: jac_nl(x) @ Perm)
    if kind == "dirjac":
        return cuqi.model.Model(forward_nl, R, G, gradient=dirjac_nl)
    if kind == "nograd":
        return cuqi.model.Model(forward_nl, R, G)
    if kind.startswith("pde"):
        return _make_pde_model(kind, G, R, k, n, r, fshape, rshape, Perm)
    raise ValueError(kind)


def _lap(n):
    L = 2.0 * np.eye(n)
    for i in range(n - 1):
        L[i, i + 1] = L[i + 1, i] = -1.0
    return L


def _make_pde_model(kind, G, R, k, n, r, fshape, rshape, Perm):
    import cuqi
    L = _lap(n)
    b = 1.0 + 0.25 * np.arange(n)
    C = 0.25 * refs.full_matrix(n, n, k + 2)
    Obs = 0.5 * refs.full_matrix(r, n, k + 1)
    obs_map = lambda u: (Obs @ np.asarray(u, float).ravel()).reshape(rshape)

    if kind == "pde-time-grad":
        dt, nsteps = 0.125, 3
        M = np.eye(n) - dt * 0.5 * L

        def form(z, t):
            z = np.asarray(z, float).ravel()
            return -0.5 * L, np.exp(0.5 * z), z

        def jac_u(z):
            z = np.asarray(z, float).ravel()
            J = np.eye(n)
            for _ in range(nsteps):
                J = M @ J + dt * np.diag(0.5 * np.exp(0.5 * z))
            return Obs @ J

        class _TimePDE(cuqi.pde.TimeDependentLinearPDE):
            def gradient_wrt_parameter(self, direction, wrt):
                return (np.asarray(direction, float).ravel() @ jac_u(wrt)).reshape(fshape)
        pde = _TimePDE(form, time_steps=dt * np.arange(nsteps + 1), observation_map=obs_map)
        return cuqi.model.PDEModel(pde, R, G)

    def form(z):
        z = np.asarray(z, float).ravel()
        return L + np.diag(np.exp(0.5 * z)), b + C @ z

    def jac_u(z):
        z = np.asarray(z, float).ravel()
        K = L + np.diag(np.exp(0.5 * z))
        u = np.linalg.solve(K, b + C @ z)
        return Obs @ np.linalg.solve(K, C - np.diag(0.5 * np.exp(0.5 * z) * u))

    class _PDEJac(cuqi.pde.SteadyStateLinearPDE):
        def jacobian_wrt_parameter(self, wrt):
            return jac_u(wrt) @ Perm

    class _PDEGrad(cuqi.pde.SteadyStateLinearPDE):
        def gradient_wrt_parameter(self, direction, wrt):
            return (np.asarray(direction, float).ravel() @ jac_u(wrt)).reshape(fshape)

    cls = {"pde-jac": _PDEJac, "pde-grad": _PDEGrad, "pde-none": cuqi.pde.SteadyStateLinearPDE}[kind]
    pde = cls(form, observation_map=obs_map)
    return cuqi.model.PDEModel(pde, R, G)


# ------------------------------------------------------------------------------------------
# data distributions (noise models) with the forward model as location
# ------------------------------------------------------------------------------------------
NOISES = ["gauss-cov-scalar", "gauss-cov-vector", "gauss-cov-diag", "gauss-cov-dense", "gauss-cov-sparse",
          "gauss-prec-sparse", "gauss-prec-scalar", "gauss-prec-vector", "gauss-prec-dense", "gauss-sqrtcov-scalar", "gauss-sqrtcov-vector",
          "gauss-sqrtcov-dense", "gauss-sqrtprec-dense", "lognormal-vector", "lognormal-dense", "gmrf", "cmrf"]


def make_data_distribution(noise, model, r, k):
    import cuqi
    D = cuqi.distribution
    S = refs.spd_matrix(r, k + 1)
    v = O.posvec(r, k + 1)
    s = O.posscalar(k + 1)
    if noise.startswith("gauss-"):
        _, param, form = noise.split("-")
        val = {"scalar": s, "vector": v, "diag": np.diag(v), "dense": S, "sparse": sp.csr_matrix(S)}[form]
        return D.Gaussian(mean=model, geometry=r, name="y", **{param: val})
    if noise == "lognormal-vector":
        return D.Lognormal(model, v, name="y")
    if noise == "lognormal-dense":
        return D.Lognormal(model, S, name="y")
    if noise == "gmrf":
        return D.GMRF(mean=model, prec=s, geometry=r, name="y")
    if noise == "cmrf":
        return D.CMRF(location=model, scale=s, geometry=r, name="y")
    raise ValueError(noise)


def make_data(noise, r, k, j=0):
    if noise.startswith("lognormal"):
        return O.positive_points(r, k + j, 1)[-1][1]
    return refs.dyadic_vec(r, k + 1 + j, scale=0.5)


def par_points(geom, p, k, npts):
    pts = O.real_points(p, k, npts)
    if geom == "mappedsq-usergrad":
        # keep away from 0 where x -> x^2 has a vanishing derivative (still differentiable; just generic values)
        pts = [(n_, x + 0.125) for n_, x in pts]
    return pts


def gen_lik_noise(p, k, npts):
    import cuqi
    keys = ["noise", "model"]
    r = p + 1
    for noise in NOISES:
        for mk in ("matrix", "jac"):
            facets = {"noise": noise, "model": mk}

            def build(noise=noise, mk=mk, facets=facets):
                G = make_domain_geometry("default", p)
                R = make_range_geometry("default", r)
                model = make_model(mk, G, R, k)
                d = make_data_distribution(noise, model, r, k)
                data = make_data(noise, r, k)
                lik = cuqi.likelihood.Likelihood(d, data)
                ref_logd = None
                if noise.endswith("-sparse"):
                    # textbook reference for the case where the library has no normalised logd (no cholmod)
                    S = refs.spd_matrix(r, k + 1)
                    P = np.linalg.inv(S) if noise == "gauss-cov-sparse" else S
                    A = 0.5 * refs.full_matrix(r, p, k)
                    B = 0.25 * refs.full_matrix(r, p, k + 1)
                    F = (lambda x: A @ x) if mk == "matrix" else (lambda x: A @ x + 0.5 * (B @ x) ** 2)
                    ref_logd = lambda x: -0.5 * float((data - F(np.asarray(x, float))) @ P @ (data - F(np.asarray(x, float))))
                return Case("Likelihood", facets, lik, par_points("default", p, k, npts), fd_targets=[lik], ref_logd=ref_logd,
                            **O.ipts(p, k, npts))
            yield "Likelihood", keys, facets, build


def gen_lik_model(p, k, npts, noise):
    import cuqi
    keys = ["model", "geom", "range", "via"]
    r = p + 1
    for mk in MODEL_KINDS:
        combos = [(g, "default") for g in DOMAIN_GEOMS] + [("default", rg) for rg in RANGE_GEOMS[1:]] + [("image2d", "image2d")]
        for geom, rg in combos:
            for noise in (noise,):
                for via in ("Likelihood", "to_likelihood", "call"):
                    if via != "Likelihood" and not (geom == "default" and rg == "default"):
                        continue
                    facets = {"model": mk, "geom": geom, "range": rg, "via": via}

                    def build(mk=mk, geom=geom, rg=rg, noise=noise, via=via, facets=facets):
                        G = make_domain_geometry(geom, p)
                        R = make_range_geometry(rg, r)
                        model = make_model(mk, G, R, k)
                        d = make_data_distribution(noise, model, r, k)
                        data = make_data(noise, r, k)
                        if via == "Likelihood":
                            lik = cuqi.likelihood.Likelihood(d, data)
                        elif via == "to_likelihood":
                            lik = d.to_likelihood(data)
                        else:
                            lik = d(y=data)
                        return Case("Likelihood", facets, lik, par_points(geom, p, k, npts), fd_targets=[lik], **O.ipts(p, k, npts))
                    yield "Likelihood", keys, facets, build


# ------------------------------------------------------------------------------------------
# priors for posteriors
# ------------------------------------------------------------------------------------------
PRIORS = ["gaussian", "gaussian-sqrtcov", "gmrf", "gmrf-neumann2", "cmrf", "cauchy", "smoothedlaplace", "beta",
          "invgamma", "lognormal", "uniform", "normal", "userdefined", "gaussian-zero"]


def make_prior(kind, p, k, npts):
    """-> (distribution named 'x', inside points, outside points)"""
    import cuqi
    D = cuqi.distribution
    lv = O.locvec(p, k)
    pv = O.posvec(p, k)
    S = refs.spd_matrix(p, k)
    real = O.real_points(p, k, npts)
    if kind == "gaussian":
        return D.Gaussian(lv, cov=S, name="x"), real, []
    if kind == "gaussian-zero":
        return D.Gaussian(np.zeros(p), cov=O.posscalar(k), name="x"), real, []
    if kind == "gaussian-sqrtcov":
        return D.Gaussian(lv, sqrtcov=pv, name="x"), real, []
    if kind == "gmrf":
        return O.pin_gmrf_constant(D.GMRF(lv, O.posscalar(k), bc_type="zero", order=1, name="x")), real, []
    if kind == "gmrf-neumann2":
        return O.pin_gmrf_constant(D.GMRF(lv, O.posscalar(k), bc_type="neumann", order=2 if p > 2 else 1, name="x")), real, []
    if kind == "cmrf":
        return D.CMRF(np.zeros(p), [0.5, 2.0, 0.25][k], bc_type="zero", name="x"), real, []
    if kind == "cauchy":
        return D.Cauchy(lv, pv, name="x"), real, []
    if kind == "smoothedlaplace":
        return D.SmoothedLaplace(lv, pv, beta=0.25, name="x"), real, []
    if kind == "beta":
        out = [("one-below", np.r_[-0.25, 0.5 * np.ones(p - 1)]), ("all-above", 1.25 + 0.125 * np.arange(p))]
        return D.Beta(pv + 0.25, pv[::-1] + 0.5, name="x"), O.unit_points(p, k, npts), out
    if kind == "invgamma":
        return (D.InverseGamma(pv + 1.0, lv, pv[::-1], name="x"), O.positive_points(p, k, npts, shift=lv),
                O.outside_lower(p, lv, k)[:2])
    if kind == "lognormal":
        return D.Lognormal(lv, S, name="x"), O.positive_points(p, k, npts), O.outside_lower(p, 0.0, k)[:2]
    if kind == "uniform":
        lo, hi = lv - 1.0, lv + 1.0 + pv
        mid = 0.5 * (lo + hi)
        ins = [("mid", mid.copy())] + [("basis%d" % i, mid + 0.25 * np.eye(p)[i]) for i in range(p)]
        x1 = mid.copy(); x1[0] = lo[0] - 0.25
        return D.Uniform(lo, hi, name="x"), ins, [("one-below", x1), ("all-above", hi + 0.5)]
    if kind == "normal":
        return D.Normal(lv, pv, name="x"), real, []
    if kind == "userdefined":
        P = S
        logpdf = lambda x: float(-0.5 * (np.asarray(x) - lv) @ P @ (np.asarray(x) - lv))
        grad = lambda x: -(P @ (np.asarray(x) - lv))
        return D.UserDefinedDistribution(dim=p, logpdf_func=logpdf, gradient_func=grad, name="x"), real, []
    raise ValueError(kind)


def prior_int_points(kind, p, k, n):
    """integer-valued points inside / outside the support of make_prior(kind, ...) (same boxes as there)"""
    lv = O.locvec(p, k)
    pv = O.posvec(p, k)
    if kind == "beta":
        return O.ipts(p, k, n, lo=0.0, hi=1.0, boundary_out=True)
    if kind == "invgamma":
        return O.ipts(p, k, n, lo=lv, boundary_out=True)
    if kind == "lognormal":
        return O.ipts(p, k, n, lo=0.0, boundary_out=True)
    if kind == "uniform":
        return O.ipts(p, k, n, lo=lv - 1.0, hi=lv + 1.0 + pv)
    return O.ipts(p, k, n)


def _likelihood(mk, geom, p, r, k, noise="gauss-cov-scalar", j=0, name="y"):
    import cuqi
    G = make_domain_geometry(geom, p)
    R = make_range_geometry("default", r)
    model = make_model(mk, G, R, k + j)
    d = make_data_distribution(noise, model, r, k + j)
    d.name = name
    return d, make_data(noise, r, k, j)


def make_user_likelihood(p, k, j=0, grad=True, geom="default", par="x", name="u"):
    """UserDefinedLikelihood in the variable `par`: a smooth non-Gaussian log-density (sum of log(1+(x_i-c_i)^2) terms)
    with its exact gradient (correct by construction) or without gradient_func; geom: 'none' (no geometry given),
    'default', 'continuous1d'."""
    import cuqi
    c = O.locvec(p, k + j + 1) + 0.25
    w = O.posvec(p, k + j)

    def value(x):
        x = np.asarray(x, float).ravel()
        return float(-np.sum(w * np.log(1.0 + (x - c) ** 2)))

    def gradient(x):
        x = np.asarray(x, float).ravel()
        return -2.0 * w * (x - c) / (1.0 + (x - c) ** 2)
    # the parameter name of a user-defined likelihood is the argument name of its logpdf_func
    ns = {"value": value}
    exec("def logpdf(%s):\n    return value(%s)" % (par, par), ns)
    G = {"none": None, "default": cuqi.geometry._DefaultGeometry1D(p), "continuous1d": cuqi.geometry.Continuous1D(p)}[geom]
    return cuqi.likelihood.UserDefinedLikelihood(dim=p, logpdf_func=ns["logpdf"], gradient_func=gradient if grad else None,
                                                 geometry=G, name=name)


def gen_posterior(p, k, npts):
    import cuqi
    keys = ["prior", "model", "geom", "via"]
    r = p + 1
    combos = []
    for mk in ("matrix", "funadj", "jac", "dirjac", "pde-jac", "nograd"):
        combos.append((mk, "default", "direct"))
    for geom in ("image2d", "mapped", "mappedsq-usergrad", "kl-usergrad", "step-usergrad"):
        combos.append(("jac", geom, "direct"))
        combos.append(("funadj", geom, "direct"))
    for mk in ("matrix", "jac"):
        combos.append((mk, "default", "joint"))
        # an extra observed quantity whose density does not depend on x: its evaluated density becomes a constant of the posterior
        combos.append((mk, "default", "joint+evaluated"))
    # member alphabet: the likelihood is a UserDefinedLikelihood (with / without gradient_func; geometry none / default / given)
    for geom in ("none", "default", "continuous1d"):
        combos.append(("userlik", geom, "direct"))
    combos.append(("userlik-nograd", "default", "direct"))
    for prior in PRIORS:
        for mk, geom, via in combos:
            facets = {"prior": prior, "model": mk, "geom": geom, "via": via}

            def build(prior=prior, mk=mk, geom=geom, via=via, facets=facets):
                pr, ins, out = make_prior(prior, p, k, npts)
                if mk.startswith("userlik"):
                    post = cuqi.distribution.Posterior(make_user_likelihood(p, k, grad=(mk == "userlik"), geom=geom), pr)
                    return Case("Posterior", facets, post, ins, out, fd_targets=[post], **prior_int_points(prior, p, k, npts))
                d, data = _likelihood(mk, geom, p, r, k)
                if via == "direct":
                    post = cuqi.distribution.Posterior(cuqi.likelihood.Likelihood(d, data), pr)
                else:
                    dens, datas = [d, pr], {"y": data}
                    if via == "joint+evaluated":
                        dens.append(cuqi.distribution.Gaussian(np.zeros(2), cov=1.0, name="z"))
                        datas["z"] = np.array([0.25, -0.5])
                    post = cuqi.distribution.JointDistribution(*dens)(**datas)
                    if not isinstance(post, cuqi.distribution.Posterior):
                        raise TypeError("joint did not reduce to a Posterior: %s" % type(post).__name__)
                if geom == "mappedsq-usergrad":
                    ins = [(n_, x + 0.03125) for n_, x in ins]
                return Case("Posterior", facets, post, ins, out, fd_targets=[post], **prior_int_points(prior, p, k, npts))
            yield "Posterior", keys, facets, build


def gen_mlp(p, k, npts):
    import cuqi
    D = cuqi.distribution
    keys = ["prior", "liks", "extra", "via"]
    r = p + 1
    # member alphabet: every kind of density the library accepts as a member - Likelihood from a distribution (forward
    # model kinds as before), UserDefinedLikelihood with ('user') / without ('user-nograd') gradient_func, an evaluated
    # density (constant); several kinds mixed, the user-defined one first / in the middle / last
    LIKS = ("matrix/jac", "matrix/funadj/dirjac", "jac/pde-jac", "matrix/nograd", "jac/jac",
            "matrix/user", "user/jac", "matrix/user/jac", "matrix/user/user", "user/user", "matrix/user-nograd")
    for prior in ("gaussian", "gmrf", "cauchy", "uniform", "beta", "normal"):
        for liks in LIKS:
            for extra in ("none", "evaluated"):
                for via in ("joint", "direct"):
                    facets = {"prior": prior, "liks": liks, "extra": extra, "via": via}

                    def build(prior=prior, liks=liks, extra=extra, via=via, facets=facets):
                        pr, ins, out = make_prior(prior, p, k, npts)
                        members, datas = [], {}         # members in the order given; data of the ordinary likelihoods
                        for j, mk in enumerate(liks.split("/")):
                            if mk.startswith("user"):
                                members.append(make_user_likelihood(p, k, j=j, grad=(mk == "user"), name="u%d" % j))
                                continue
                            d, data = _likelihood(mk, "default", p, r, k, noise=("gauss-cov-scalar", "gauss-cov-dense", "gauss-cov-vector")[j % 3],
                                                  j=j, name="y%d" % j)
                            members.append(d)
                            datas["y%d" % j] = data
                        if via == "direct":
                            dens = [cuqi.likelihood.Likelihood(d, datas[d.name]) if isinstance(d, D.Distribution) else d for d in members]
                            dens.append(pr)
                            if extra == "evaluated":
                                dens.append(cuqi.density.EvaluatedDensity(-1.5, name="z"))
                            obj = D.MultipleLikelihoodPosterior(*dens)
                        else:
                            dens = list(members) + [pr]
                            if extra == "evaluated":
                                # an extra observed quantity whose density does not depend on x: becomes an EvaluatedDensity
                                z = D.Gaussian(np.zeros(2), cov=1.0, name="z")
                                dens.append(z)
                                datas["z"] = np.array([0.25, -0.5])
                            obj = D.JointDistribution(*dens)(**datas)
                            if not isinstance(obj, D.MultipleLikelihoodPosterior):
                                raise TypeError("joint did not reduce to MultipleLikelihoodPosterior: %s" % type(obj).__name__)
                        # the FD switch lives on the component densities actually held by the object (conditioning copies them)
                        return Case("MultipleLikelihoodPosterior", facets, obj, ins, out, fd_targets=list(obj._densities),
                                    **prior_int_points(prior, p, k, npts))
                    yield "MultipleLikelihoodPosterior", keys, facets, build
    # stacked joint (a Distribution without analytic gradient: refuses, derivative under the FD option) of two
    # distributions x, w and - member alphabet - further densities in x: an ordinary likelihood, a user-defined one,
    # an evaluated density; a member with a bounded support (uniform) brings the boundary points of its box
    keys = ["pair", "extra"]
    for pair in ("gaussian/cauchy", "gaussian/gmrf", "gaussian/uniform"):
        for extra in ("none", "lik", "user", "lik+user", "evaluated"):
            facets = {"pair": pair, "extra": extra}

            def build(pair=pair, extra=extra, facets=facets):
                a, b = pair.split("/")
                d1, i1, _ = make_prior(a, p, k, npts)
                d2, i2, _ = make_prior(b, p, k + 1, npts)
                d2.name = "w"
                dens = [d1, d2]
                if "lik" in extra:
                    d, data = _likelihood("jac", "default", p, r, k)
                    dens.insert(0, cuqi.likelihood.Likelihood(d, data))
                if "user" in extra:
                    dens.append(make_user_likelihood(p, k, j=1, par="w", name="u"))
                if extra == "evaluated":
                    dens.append(cuqi.density.EvaluatedDensity(-1.5, name="z"))
                obj = D.JointDistribution(*dens)._as_stacked()
                pts = [(n1, np.r_[x1, x2]) for (n1, x1), (n2, x2) in zip(i1, i2)]
                box = {}
                if b == "uniform":      # same box as make_prior("uniform", p, k + 1, .)
                    lvw, pvw = O.locvec(p, k + 1), O.posvec(p, k + 1)
                    box = {"lo": np.r_[np.full(p, -np.inf), lvw - 1.0], "hi": np.r_[np.full(p, np.inf), lvw + 1.0 + pvw]}
                return Case("_StackedJointDistribution", facets, obj, pts, fd_targets=[obj], **O.ipts(2 * p, k, npts, **box))
            yield "_StackedJointDistribution", keys, facets, build
