"""C03 helper: composite objects (Likelihood through forward models and domain geometries, Posterior,
MultipleLikelihoodPosterior, stacked joint).  Only used by checks/c03.py.

All user-supplied ingredients (Jacobians, adjoints, geometry.gradient, PDE gradients) are correct by
construction (closed forms of the harness' own toy maps); what is under test is the library's wiring:
Gaussian/Lognormal likelihood branch, Model.gradient chain rule, Likelihood, Posterior and
MultipleLikelihoodPosterior sum rule, and the finite-difference switch."""
import numpy as np
import scipy.sparse as sp
from vfw import refs
from checks._c03_engine import Case, Pieces
from checks import _c03_objects as O


def _W(pieces):
    """wrapper applied to every user-supplied callable: identity when the object has no aliasing facet"""
    return (lambda f, name, view=None, constant=False: f) if pieces is None else pieces.wrap


# ------------------------------------------------------------------------------------------
# geometries
# ------------------------------------------------------------------------------------------
def _img_shape(p):
    return (2, p // 2) if (p % 2 == 0 and p >= 4) else (p, 1)


def make_domain_geometry(kind, p, pieces=None):
    import cuqi
    G = cuqi.geometry
    W = _W(pieces)
    if kind == "default":
        return G._DefaultGeometry1D(p)
    if kind == "continuous1d":
        return G.Continuous1D(p)
    if kind == "discrete":
        return G.Discrete(["v%d" % i for i in range(p)])
    if kind == "image2d":
        return G.Image2D(_img_shape(p))
    if kind == "image2dF":
        return G.Image2D(_img_shape(p), order="F")
    if kind in ("mapped", "mapped-usergrad"):
        g = G.MappedGeometry(G.Continuous1D(p), map=W(lambda x: 2 * x, "geometry.map"), imap=W(lambda x: x / 2, "geometry.imap"))
        if kind.endswith("-usergrad"):
            g.gradient = W(lambda direction, wrt: 2 * np.asarray(direction, float), "geometry.gradient")
        return g
    if kind == "mappedsq-usergrad":
        g = G.MappedGeometry(G.Continuous1D(p), map=W(lambda x: x ** 2, "geometry.map"), imap=W(lambda x: np.sqrt(x), "geometry.imap"))
        g.gradient = W(lambda direction, wrt: 2 * np.asarray(wrt, float) * np.asarray(direction, float), "geometry.gradient")
        return g
    if kind == "mappedexp-usergrad":
        g = G.MappedGeometry(G.Continuous1D(p), map=W(lambda x: np.exp(0.5 * x), "geometry.map"),
                             imap=W(lambda x: 2 * np.log(x), "geometry.imap"))
        g.gradient = W(lambda direction, wrt: 0.5 * np.exp(0.5 * np.asarray(wrt, float)) * np.asarray(direction, float),
                       "geometry.gradient")
        return g
    if kind == "flip-usergrad":
        # par2fun reverses the order of the components (a permutation): map, imap and the user-supplied derivative can
        # each be written as a new array or as a VIEW of the argument
        g = G.MappedGeometry(G.Continuous1D(p),
                             map=W(lambda x: np.array(np.asarray(x, float)[::-1]), "geometry.map", view=lambda x: np.asarray(x)[::-1]),
                             imap=W(lambda x: np.array(np.asarray(x, float)[::-1]), "geometry.imap", view=lambda x: np.asarray(x)[::-1]))
        g.gradient = W(lambda direction, wrt: np.array(np.asarray(direction, float)[::-1]), "geometry.gradient",
                       view=lambda direction, wrt: np.asarray(direction)[::-1])
        return g
    if kind in ("kl", "kl-usergrad"):
        g = G.KLExpansion(np.linspace(0, 1, p + 2), decay_rate=1.5, normalizer=2.0, num_modes=p)
    elif kind in ("step", "step-usergrad"):
        g = G.StepExpansion(np.linspace(0, 1, 2 * p + 1), n_steps=p)
    else:
        raise ValueError(kind)
    if kind.endswith("-usergrad"):
        # user-supplied derivative of the (linear) par2fun map, built from the geometry's own map on the basis
        J = np.column_stack([np.asarray(g.par2fun(e), float).ravel() for e in np.eye(p)])
        g.gradient = W(lambda direction, wrt, J=J: J.T @ np.asarray(direction, float).ravel(), "geometry.gradient")
    return g


def make_range_geometry(kind, r):
    import cuqi
    G = cuqi.geometry
    if kind == "default":
        return G._DefaultGeometry1D(r)
    if kind == "continuous1d":
        return G.Continuous1D(r)
    if kind == "image2d":
        return G.Image2D(_img_shape(r))
    if kind == "mapped":
        return G.MappedGeometry(G.Continuous1D(r), map=lambda x: 2 * x, imap=lambda x: x / 2)
    raise ValueError(kind)


DOMAIN_GEOMS = ["default", "continuous1d", "discrete", "image2d", "image2dF", "mapped", "mapped-usergrad", "mappedsq-usergrad",
                "mappedexp-usergrad", "kl", "kl-usergrad", "step", "step-usergrad"]
RANGE_GEOMS = ["default", "continuous1d", "image2d", "mapped"]
MODEL_KINDS = ["matrix", "funadj", "jac", "dirjac", "nograd", "pde-jac", "pde-grad", "pde-none", "pde-time-grad"]


# ------------------------------------------------------------------------------------------
# forward models
# ------------------------------------------------------------------------------------------
def make_model(kind, G, R, k, pieces=None):
    """Forward model acting on the *function values* of the domain geometry G, output = function values of R.
    pieces: registry through which every user-supplied callable (forward, adjoint, Jacobian, direction-Jacobian product,
    PDE derivative methods) is passed (aliasing facet: fresh / stored arrays / views of the argument)."""
    import cuqi
    W = _W(pieces)
    fshape = tuple(G.fun_shape)
    n = int(np.prod(fshape))
    rshape = tuple(R.fun_shape)
    r = int(np.prod(rshape))
    A = 0.5 * refs.full_matrix(r, n, k)
    B = 0.25 * refs.full_matrix(r, n, k + 1)

    # A user Jacobian has one column per *parameter*; the toy maps below differentiate w.r.t. the C-order
    # flattened function values z.  For image geometries z = Perm @ par (a permutation for order="F").
    if len(fshape) == 2:
        Perm = np.column_stack([np.asarray(G.par2fun(e), float).ravel() for e in np.eye(G.par_dim)])
    else:
        Perm = np.eye(n)

    def z_(x):
        return np.asarray(x, float).ravel()

    def out_(y):
        return np.asarray(y, float).reshape(rshape)

    def forward_lin(x):
        return out_(A @ z_(x))

    def adjoint_lin(y):
        return (A.T @ z_(y)).reshape(fshape)

    def forward_nl(x):
        z = z_(x)
        return out_(A @ z + 0.5 * (B @ z) ** 2)

    def jac_nl(x):
        z = z_(x)
        return A + (B @ z)[:, None] * B

    def dirjac_nl(direction, wrt):
        return (z_(direction) @ jac_nl(wrt)).reshape(fshape)

    # "flip" operator (a selection matrix): y_i = z_{n-1-i} for i < n, y_i = 0 for i >= n (needs n <= r); its adjoint
    # w_j = y_{n-1-j} can be written as a new array or as a VIEW of its argument
    def forward_flip(x):
        y = np.zeros(r)
        y[:n] = z_(x)[::-1]
        return out_(y)

    def adjoint_flip(y):
        return np.array(z_(y)[:n][::-1]).reshape(fshape)

    def adjoint_flip_view(y):
        return z_(y)[:n][::-1].reshape(fshape)

    if kind == "matrix":
        return cuqi.model.LinearModel(A, range_geometry=R, domain_geometry=G)
    if kind == "funadj":
        return cuqi.model.LinearModel(W(forward_lin, "model.forward"), adjoint=W(adjoint_lin, "model.adjoint"),
                                      range_geometry=R, domain_geometry=G)
    if kind == "jac":
        return cuqi.model.Model(W(forward_nl, "model.forward"), R, G, jacobian=W(lambda x: jac_nl(x) @ Perm, "model.jacobian"))
    if kind == "dirjac":
        return cuqi.model.Model(W(forward_nl, "model.forward"), R, G, gradient=W(dirjac_nl, "model.gradient"))
    if kind == "nograd":
        return cuqi.model.Model(W(forward_nl, "model.forward"), R, G)
    if kind in ("funadj-flip", "dirjac-flip"):
        if n > r:
            raise ValueError("harness: the flip operator needs n <= r")
        if kind == "funadj-flip":
            return cuqi.model.LinearModel(W(forward_flip, "model.forward"), adjoint=W(adjoint_flip, "model.adjoint", view=adjoint_flip_view),
                                          range_geometry=R, domain_geometry=G)
        return cuqi.model.Model(W(forward_flip, "model.forward"), R, G,
                                gradient=W(lambda direction, wrt: adjoint_flip(direction), "model.gradient",
                                           view=lambda direction, wrt: adjoint_flip_view(direction)))
    if kind.startswith("pde"):
        return _make_pde_model(kind, G, R, k, n, r, fshape, rshape, Perm, W)
    raise ValueError(kind)


def _lap(n):
    L = 2.0 * np.eye(n)
    for i in range(n - 1):
        L[i, i + 1] = L[i + 1, i] = -1.0
    return L


def _make_pde_model(kind, G, R, k, n, r, fshape, rshape, Perm, W):
    import cuqi
    L = _lap(n)
    b = 1.0 + 0.25 * np.arange(n)
    C = 0.25 * refs.full_matrix(n, n, k + 2)
    Obs = 0.5 * refs.full_matrix(r, n, k + 1)
    obs_map = lambda u: (Obs @ np.asarray(u, float).ravel()).reshape(rshape)

    if kind == "pde-time-grad":
        dt, nsteps = 0.125, 3
        M = np.eye(n) - dt * 0.5 * L

        def form(z, t):
            z = np.asarray(z, float).ravel()
            return -0.5 * L, np.exp(0.5 * z), z

        def jac_u(z):
            z = np.asarray(z, float).ravel()
            J = np.eye(n)
            for _ in range(nsteps):
                J = M @ J + dt * np.diag(0.5 * np.exp(0.5 * z))
            return Obs @ J

        tgrad = W(lambda direction, wrt: (np.asarray(direction, float).ravel() @ jac_u(wrt)).reshape(fshape), "pde.gradient_wrt_parameter")

        class _TimePDE(cuqi.pde.TimeDependentLinearPDE):
            def gradient_wrt_parameter(self, direction, wrt):
                return tgrad(direction, wrt)
        pde = _TimePDE(form, time_steps=dt * np.arange(nsteps + 1), observation_map=obs_map)
        return cuqi.model.PDEModel(pde, R, G)

    def form(z):
        z = np.asarray(z, float).ravel()
        return L + np.diag(np.exp(0.5 * z)), b + C @ z

    def jac_u(z):
        z = np.asarray(z, float).ravel()
        K = L + np.diag(np.exp(0.5 * z))
        u = np.linalg.solve(K, b + C @ z)
        return Obs @ np.linalg.solve(K, C - np.diag(0.5 * np.exp(0.5 * z) * u))

    pjac = W(lambda wrt: jac_u(wrt) @ Perm, "pde.jacobian_wrt_parameter")
    pgrad = W(lambda direction, wrt: (np.asarray(direction, float).ravel() @ jac_u(wrt)).reshape(fshape), "pde.gradient_wrt_parameter")

    class _PDEJac(cuqi.pde.SteadyStateLinearPDE):
        def jacobian_wrt_parameter(self, wrt):
            return pjac(wrt)

    class _PDEGrad(cuqi.pde.SteadyStateLinearPDE):
        def gradient_wrt_parameter(self, direction, wrt):
            return pgrad(direction, wrt)

    cls = {"pde-jac": _PDEJac, "pde-grad": _PDEGrad, "pde-none": cuqi.pde.SteadyStateLinearPDE}[kind]
    pde = cls(form, observation_map=obs_map)
    return cuqi.model.PDEModel(pde, R, G)


# ------------------------------------------------------------------------------------------
# data distributions (noise models) with the forward model as location
# ------------------------------------------------------------------------------------------
NOISES = ["gauss-cov-scalar", "gauss-cov-vector", "gauss-cov-diag", "gauss-cov-dense", "gauss-cov-sparse",
          "gauss-prec-sparse", "gauss-prec-scalar", "gauss-prec-vector", "gauss-prec-dense", "gauss-sqrtcov-scalar", "gauss-sqrtcov-vector",
          "gauss-sqrtcov-dense", "gauss-sqrtprec-dense", "lognormal-vector", "lognormal-dense", "gmrf", "cmrf"]


def make_data_distribution(noise, model, r, k):
    import cuqi
    D = cuqi.distribution
    S = refs.spd_matrix(r, k + 1)
    v = O.posvec(r, k + 1)
    s = O.posscalar(k + 1)
    if noise.startswith("gauss-"):
        _, param, form = noise.split("-")
        val = {"scalar": s, "vector": v, "diag": np.diag(v), "dense": S, "sparse": sp.csr_matrix(S)}[form]
        return D.Gaussian(mean=model, geometry=r, name="y", **{param: val})
    if noise == "lognormal-vector":
        return D.Lognormal(model, v, name="y")
    if noise == "lognormal-dense":
        return D.Lognormal(model, S, name="y")
    if noise == "gmrf":
        return D.GMRF(mean=model, prec=s, geometry=r, name="y")
    if noise == "cmrf":
        return D.CMRF(location=model, scale=s, geometry=r, name="y")
    raise ValueError(noise)


def make_data(noise, r, k, j=0):
    if noise.startswith("lognormal"):
        return O.positive_points(r, k + j, 1)[-1][1]
    return refs.dyadic_vec(r, k + 1 + j, scale=0.5)


def par_points(geom, p, k, npts):
    pts = O.real_points(p, k, npts)
    if geom == "mappedsq-usergrad":
        # keep away from 0 where x -> x^2 has a vanishing derivative (still differentiable; just generic values)
        pts = [(n_, x + 0.125) for n_, x in pts]
    return pts


def gen_lik_noise(p, k, npts):
    import cuqi
    keys = ["noise", "model"]
    r = p + 1
    for noise in NOISES:
        for mk in ("matrix", "jac"):
            facets = {"noise": noise, "model": mk}

            def build(noise=noise, mk=mk, facets=facets):
                G = make_domain_geometry("default", p)
                R = make_range_geometry("default", r)
                model = make_model(mk, G, R, k)
                d = make_data_distribution(noise, model, r, k)
                data = make_data(noise, r, k)
                lik = cuqi.likelihood.Likelihood(d, data)
                ref_logd = None
                if noise.endswith("-sparse"):
                    # textbook reference for the case where the library has no normalised logd (no cholmod)
                    S = refs.spd_matrix(r, k + 1)
                    P = np.linalg.inv(S) if noise == "gauss-cov-sparse" else S
                    A = 0.5 * refs.full_matrix(r, p, k)
                    B = 0.25 * refs.full_matrix(r, p, k + 1)
                    F = (lambda x: A @ x) if mk == "matrix" else (lambda x: A @ x + 0.5 * (B @ x) ** 2)
                    ref_logd = lambda x: -0.5 * float((data - F(np.asarray(x, float))) @ P @ (data - F(np.asarray(x, float))))
                return Case("Likelihood", facets, lik, par_points("default", p, k, npts), fd_targets=[lik], ref_logd=ref_logd,
                            **O.ipts(p, k, npts))
            yield "Likelihood", keys, facets, build


def gen_lik_model(p, k, npts, noise):
    import cuqi
    keys = ["model", "geom", "range", "via"]
    r = p + 1
    for mk in MODEL_KINDS:
        combos = [(g, "default") for g in DOMAIN_GEOMS] + [("default", rg) for rg in RANGE_GEOMS[1:]] + [("image2d", "image2d")]
        for geom, rg in combos:
            for noise in (noise,):
                for via in ("Likelihood", "to_likelihood", "call"):
                    if via != "Likelihood" and not (geom == "default" and rg == "default"):
                        continue
                    facets = {"model": mk, "geom": geom, "range": rg, "via": via}

                    def build(mk=mk, geom=geom, rg=rg, noise=noise, via=via, facets=facets):
                        G = make_domain_geometry(geom, p)
                        R = make_range_geometry(rg, r)
                        model = make_model(mk, G, R, k)
                        d = make_data_distribution(noise, model, r, k)
                        data = make_data(noise, r, k)
                        if via == "Likelihood":
                            lik = cuqi.likelihood.Likelihood(d, data)
                        elif via == "to_likelihood":
                            lik = d.to_likelihood(data)
                        else:
                            lik = d(y=data)
                        return Case("Likelihood", facets, lik, par_points(geom, p, k, npts), fd_targets=[lik], **O.ipts(p, k, npts))
                    yield "Likelihood", keys, facets, build


# ------------------------------------------------------------------------------------------
# priors for posteriors
# ------------------------------------------------------------------------------------------
PRIORS = ["gaussian", "gaussian-sqrtcov", "gmrf", "gmrf-neumann2", "cmrf", "cauchy", "smoothedlaplace", "beta",
          "invgamma", "lognormal", "uniform", "normal", "userdefined", "gaussian-zero"]


def make_prior(kind, p, k, npts, pieces=None):
    """-> (distribution named 'x', inside points, outside points)"""
    import cuqi
    D = cuqi.distribution
    lv = O.locvec(p, k)
    pv = O.posvec(p, k)
    S = refs.spd_matrix(p, k)
    real = O.real_points(p, k, npts)
    if kind == "gaussian":
        return D.Gaussian(lv, cov=S, name="x"), real, []
    if kind == "gaussian-zero":
        return D.Gaussian(np.zeros(p), cov=O.posscalar(k), name="x"), real, []
    if kind == "gaussian-sqrtcov":
        return D.Gaussian(lv, sqrtcov=pv, name="x"), real, []
    if kind == "gmrf":
        return O.pin_gmrf_constant(D.GMRF(lv, O.posscalar(k), bc_type="zero", order=1, name="x")), real, []
    if kind == "gmrf-neumann2":
        return O.pin_gmrf_constant(D.GMRF(lv, O.posscalar(k), bc_type="neumann", order=2 if p > 2 else 1, name="x")), real, []
    if kind == "cmrf":
        return D.CMRF(np.zeros(p), [0.5, 2.0, 0.25][k], bc_type="zero", name="x"), real, []
    if kind == "cauchy":
        return D.Cauchy(lv, pv, name="x"), real, []
    if kind == "smoothedlaplace":
        return D.SmoothedLaplace(lv, pv, beta=0.25, name="x"), real, []
    if kind == "beta":
        out = [("one-below", np.r_[-0.25, 0.5 * np.ones(p - 1)]), ("all-above", 1.25 + 0.125 * np.arange(p))]
        return D.Beta(pv + 0.25, pv[::-1] + 0.5, name="x"), O.unit_points(p, k, npts), out
    if kind == "invgamma":
        return (D.InverseGamma(pv + 1.0, lv, pv[::-1], name="x"), O.positive_points(p, k, npts, shift=lv),
                O.outside_lower(p, lv, k)[:2])
    if kind == "lognormal":
        return D.Lognormal(lv, S, name="x"), O.positive_points(p, k, npts), O.outside_lower(p, 0.0, k)[:2]
    if kind == "uniform":
        lo, hi = lv - 1.0, lv + 1.0 + pv
        mid = 0.5 * (lo + hi)
        ins = [("mid", mid.copy())] + [("basis%d" % i, mid + 0.25 * np.eye(p)[i]) for i in range(p)]
        x1 = mid.copy(); x1[0] = lo[0] - 0.25
        return D.Uniform(lo, hi, name="x"), ins, [("one-below", x1), ("all-above", hi + 0.5)]
    if kind == "normal":
        return D.Normal(lv, pv, name="x"), real, []
    if kind == "userdefined":
        P = S
        logpdf = lambda x: float(-0.5 * (np.asarray(x) - lv) @ P @ (np.asarray(x) - lv))
        grad = _W(pieces)(lambda x: -(P @ (np.asarray(x) - lv)), "UserDefinedDistribution.gradient_func")
        return D.UserDefinedDistribution(dim=p, logpdf_func=logpdf, gradient_func=grad, name="x"), real, []
    raise ValueError(kind)


def prior_int_points(kind, p, k, n):
    """integer-valued points inside / outside the support of make_prior(kind, ...) (same boxes as there)"""
    lv = O.locvec(p, k)
    pv = O.posvec(p, k)
    if kind == "beta":
        return O.ipts(p, k, n, lo=0.0, hi=1.0, boundary_out=True)
    if kind == "invgamma":
        return O.ipts(p, k, n, lo=lv, boundary_out=True)
    if kind == "lognormal":
        return O.ipts(p, k, n, lo=0.0, boundary_out=True)
    if kind == "uniform":
        return O.ipts(p, k, n, lo=lv - 1.0, hi=lv + 1.0 + pv)
    return O.ipts(p, k, n)


def _likelihood(mk, geom, p, r, k, noise="gauss-cov-scalar", j=0, name="y", pieces=None):
    import cuqi
    G = make_domain_geometry(geom, p, pieces)
    R = make_range_geometry("default", r)
    model = make_model(mk, G, R, k + j, pieces)
    d = make_data_distribution(noise, model, r, k + j)
    d.name = name
    return d, make_data(noise, r, k, j)


def make_user_likelihood(p, k, j=0, grad=True, geom="default", par="x", name="u", shape="smooth", pieces=None):
    """UserDefinedLikelihood in the variable `par` with its exact gradient (correct by construction) or without
    gradient_func; geom: 'none' (no geometry given), 'default', 'continuous1d'.
    shape: 'smooth'  a smooth non-Gaussian log-likelihood (sum of log(1+(x_i-c_i)^2) terms)
           'linear'  l(x) = c.x (exponential tilt): the gradient is the constant vector c - under the aliasing facet 'stored'
                     the gradient_func returns the ONE stored array c on every call
           'quad'    l(x) = |x|^2/2: the gradient is x - under the aliasing facet 'view' the gradient_func returns its argument
    pieces: registry through which the gradient_func is passed (aliasing facet)"""
    import cuqi
    c = O.locvec(p, k + j + 1) + 0.25
    w = O.posvec(p, k + j)
    kw = {}
    if shape == "smooth":
        def value(x):
            x = np.asarray(x, float).ravel()
            return float(-np.sum(w * np.log(1.0 + (x - c) ** 2)))

        def gradient(x):
            x = np.asarray(x, float).ravel()
            return -2.0 * w * (x - c) / (1.0 + (x - c) ** 2)
    elif shape == "linear":
        def value(x):
            return float(c @ np.asarray(x, float).ravel())

        def gradient(x):
            return c.copy()
        kw = {"constant": True}
    elif shape == "quad":
        def value(x):
            x = np.asarray(x, float).ravel()
            return float(0.5 * (x @ x))

        def gradient(x):
            return np.array(x, dtype=float, copy=True)
        kw = {"view": lambda x: x}
    else:
        raise ValueError(shape)
    gradient = _W(pieces)(gradient, "UserDefinedLikelihood.gradient_func", **kw)
    # the parameter name of a user-defined likelihood is the argument name of its logpdf_func
    ns = {"value": value}
    exec("def logpdf(%s):\n    return value(%s)" % (par, par), ns)
    G = {"none": None, "default": cuqi.geometry._DefaultGeometry1D(p), "continuous1d": cuqi.geometry.Continuous1D(p)}[geom]
    return cuqi.likelihood.UserDefinedLikelihood(dim=p, logpdf_func=ns["logpdf"], gradient_func=gradient if grad else None,
                                                 geometry=G, name=name)


def gen_posterior(p, k, npts):
    import cuqi
    keys = ["prior", "model", "geom", "via"]
    r = p + 1
    combos = []
    for mk in ("matrix", "funadj", "jac", "dirjac", "pde-jac", "nograd"):
        combos.append((mk, "default", "direct"))
    for geom in ("image2d", "mapped", "mappedsq-usergrad", "kl-usergrad", "step-usergrad"):
        combos.append(("jac", geom, "direct"))
        combos.append(("funadj", geom, "direct"))
    for mk in ("matrix", "jac"):
        combos.append((mk, "default", "joint"))
        # an extra observed quantity whose density does not depend on x: its evaluated density becomes a constant of the posterior
        combos.append((mk, "default", "joint+evaluated"))
    # member alphabet: the likelihood is a UserDefinedLikelihood (with / without gradient_func; geometry none / default / given)
    for geom in ("none", "default", "continuous1d"):
        combos.append(("userlik", geom, "direct"))
    combos.append(("userlik-nograd", "default", "direct"))
    for prior in PRIORS:
        for mk, geom, via in combos:
            facets = {"prior": prior, "model": mk, "geom": geom, "via": via}

            def build(prior=prior, mk=mk, geom=geom, via=via, facets=facets):
                pr, ins, out = make_prior(prior, p, k, npts)
                if mk.startswith("userlik"):
                    post = cuqi.distribution.Posterior(make_user_likelihood(p, k, grad=(mk == "userlik"), geom=geom), pr)
                    return Case("Posterior", facets, post, ins, out, fd_targets=[post], **prior_int_points(prior, p, k, npts))
                d, data = _likelihood(mk, geom, p, r, k)
                if via == "direct":
                    post = cuqi.distribution.Posterior(cuqi.likelihood.Likelihood(d, data), pr)
                else:
                    dens, datas = [d, pr], {"y": data}
                    if via == "joint+evaluated":
                        dens.append(cuqi.distribution.Gaussian(np.zeros(2), cov=1.0, name="z"))
                        datas["z"] = np.array([0.25, -0.5])
                    post = cuqi.distribution.JointDistribution(*dens)(**datas)
                    if not isinstance(post, cuqi.distribution.Posterior):
                        raise TypeError("joint did not reduce to a Posterior: %s" % type(post).__name__)
                if geom == "mappedsq-usergrad":
                    ins = [(n_, x + 0.03125) for n_, x in ins]
                return Case("Posterior", facets, post, ins, out, fd_targets=[post], **prior_int_points(prior, p, k, npts))
            yield "Posterior", keys, facets, build


def gen_mlp(p, k, npts):
    import cuqi
    D = cuqi.distribution
    keys = ["prior", "liks", "extra", "via"]
    r = p + 1
    # member alphabet: every kind of density the library accepts as a member - Likelihood from a distribution (forward
    # model kinds as before), UserDefinedLikelihood with ('user') / without ('user-nograd') gradient_func, an evaluated
    # density (constant); several kinds mixed, the user-defined one first / in the middle / last
    LIKS = ("matrix/jac", "matrix/funadj/dirjac", "jac/pde-jac", "matrix/nograd", "jac/jac",
            "matrix/user", "user/jac", "matrix/user/jac", "matrix/user/user", "user/user", "matrix/user-nograd")
    for prior in ("gaussian", "gmrf", "cauchy", "uniform", "beta", "normal"):
        for liks in LIKS:
            for extra in ("none", "evaluated"):
                for via in ("joint", "direct"):
                    facets = {"prior": prior, "liks": liks, "extra": extra, "via": via}

                    def build(prior=prior, liks=liks, extra=extra, via=via, facets=facets):
                        pr, ins, out = make_prior(prior, p, k, npts)
                        members, datas = [], {}         # members in the order given; data of the ordinary likelihoods
                        for j, mk in enumerate(liks.split("/")):
                            if mk.startswith("user"):
                                members.append(make_user_likelihood(p, k, j=j, grad=(mk == "user"), name="u%d" % j))
                                continue
                            d, data = _likelihood(mk, "default", p, r, k, noise=("gauss-cov-scalar", "gauss-cov-dense", "gauss-cov-vector")[j % 3],
                                                  j=j, name="y%d" % j)
                            members.append(d)
                            datas["y%d" % j] = data
                        if via == "direct":
                            dens = [cuqi.likelihood.Likelihood(d, datas[d.name]) if isinstance(d, D.Distribution) else d for d in members]
                            dens.append(pr)
                            if extra == "evaluated":
                                dens.append(cuqi.density.EvaluatedDensity(-1.5, name="z"))
                            obj = D.MultipleLikelihoodPosterior(*dens)
                        else:
                            dens = list(members) + [pr]
                            if extra == "evaluated":
                                # an extra observed quantity whose density does not depend on x: becomes an EvaluatedDensity
                                z = D.Gaussian(np.zeros(2), cov=1.0, name="z")
                                dens.append(z)
                                datas["z"] = np.array([0.25, -0.5])
                            obj = D.JointDistribution(*dens)(**datas)
                            if not isinstance(obj, D.MultipleLikelihoodPosterior):
                                raise TypeError("joint did not reduce to MultipleLikelihoodPosterior: %s" % type(obj).__name__)
                        # the FD switch lives on the component densities actually held by the object (conditioning copies them)
                        return Case("MultipleLikelihoodPosterior", facets, obj, ins, out, fd_targets=list(obj._densities),
                                    **prior_int_points(prior, p, k, npts))
                    yield "MultipleLikelihoodPosterior", keys, facets, build
    # stacked joint (a Distribution without analytic gradient: refuses, derivative under the FD option) of two
    # distributions x, w and - member alphabet - further densities in x: an ordinary likelihood, a user-defined one,
    # an evaluated density; a member with a bounded support (uniform) brings the boundary points of its box
    keys = ["pair", "extra"]
    for pair in ("gaussian/cauchy", "gaussian/gmrf", "gaussian/uniform"):
        for extra in ("none", "lik", "user", "lik+user", "evaluated"):
            facets = {"pair": pair, "extra": extra}

            def build(pair=pair, extra=extra, facets=facets):
                a, b = pair.split("/")
                d1, i1, _ = make_prior(a, p, k, npts)
                d2, i2, _ = make_prior(b, p, k + 1, npts)
                d2.name = "w"
                dens = [d1, d2]
                if "lik" in extra:
                    d, data = _likelihood("jac", "default", p, r, k)
                    dens.insert(0, cuqi.likelihood.Likelihood(d, data))
                if "user" in extra:
                    dens.append(make_user_likelihood(p, k, j=1, par="w", name="u"))
                if extra == "evaluated":
                    dens.append(cuqi.density.EvaluatedDensity(-1.5, name="z"))
                obj = D.JointDistribution(*dens)._as_stacked()
                pts = [(n1, np.r_[x1, x2]) for (n1, x1), (n2, x2) in zip(i1, i2)]
                box = {}
                if b == "uniform":      # same box as make_prior("uniform", p, k + 1, .)
                    lvw, pvw = O.locvec(p, k + 1), O.posvec(p, k + 1)
                    box = {"lo": np.r_[np.full(p, -np.inf), lvw - 1.0], "hi": np.r_[np.full(p, np.inf), lvw + 1.0 + pvw]}
                return Case("_StackedJointDistribution", facets, obj, pts, fd_targets=[obj], **O.ipts(2 * p, k, npts, **box))
            yield "_StackedJointDistribution", keys, facets, build


# ------------------------------------------------------------------------------------------
# facet "user-supplied pieces return fresh arrays / stored arrays / views of their input" on the composite objects
# ------------------------------------------------------------------------------------------
USER_SHAPES = {"userlik": "smooth", "userlik-linear": "linear", "userlik-quad": "quad",
               "user": "smooth", "userlin": "linear", "userquad": "quad"}


def _aliases(*names):
    """aliasing variants of a configuration: fresh and stored always; view when one of its pieces has a view form"""
    has_view = any(("flip" in n_) or n_ in ("userlik-quad", "userquad") for n_ in names)
    return ("fresh", "stored", "view") if has_view else ("fresh", "stored")


def gen_alias(group, p, k, npts, thorough=False):
    """Composite objects whose user-supplied callables (gradient_func of UserDefinedLikelihood / UserDefinedDistribution,
    forward / adjoint / Jacobian / direction-Jacobian product of the forward model, PDE derivative methods, map / imap /
    gradient of the domain geometry) all return - facet `alias` - fresh arrays, stored arrays (the same object whenever the
    same arguments recur; ONE array for a constant function) or, where the piece allows it, a view of their argument.
    The objects carry the interior catalogue points only (the other point facets are crossed in the main cells); the
    repetition pass of the check evaluates them repeatedly on the live object and the stored arrays are compared with
    their pristine copies afterwards."""
    import cuqi
    D = cuqi.distribution
    r = p + 1
    if group == "lik":
        keys = ["model", "geom", "noise", "alias"]
        combos = [(mk, "default") for mk in ("funadj", "jac", "dirjac", "pde-jac", "pde-grad", "pde-time-grad", "funadj-flip", "dirjac-flip")]
        combos += [(mk, g) for g in ("mappedsq-usergrad", "kl-usergrad", "flip-usergrad") for mk in ("funadj", "jac", "dirjac")]
        combos += [("funadj-flip", "flip-usergrad")]
        noises = ("gauss-cov-dense", "lognormal-dense") if thorough else ("gauss-cov-dense",)
        for noise in noises:
            for mk, geom in combos:
                for alias in _aliases(mk, geom):
                    facets = {"model": mk, "geom": geom, "noise": noise, "alias": alias, "_sig": ["model", "alias"]}

                    def build(mk=mk, geom=geom, noise=noise, alias=alias, facets=facets):
                        pieces = Pieces(alias)
                        G = make_domain_geometry(geom, p, pieces)
                        R = make_range_geometry("default", r)
                        model = make_model(mk, G, R, k, pieces)
                        d = make_data_distribution(noise, model, r, k)
                        lik = cuqi.likelihood.Likelihood(d, make_data(noise, r, k))
                        return Case("Likelihood", facets, lik, par_points(geom, p, k, npts), fd_targets=[lik], pieces=pieces)
                    yield "Likelihood", keys, facets, build
        return
    if group == "posterior":
        keys = ["prior", "model", "geom", "via", "alias"]
        combos = [("userlik", "default"), ("userlik-linear", "default"), ("userlik-quad", "default"), ("jac", "default"),
                  ("dirjac", "default"), ("funadj", "default"), ("funadj-flip", "default"), ("pde-jac", "default"),
                  ("jac", "kl-usergrad"), ("funadj", "flip-usergrad")]
        priors = PRIORS if thorough else ("gaussian", "gmrf", "cauchy", "uniform", "userdefined")
        for prior in priors:
            for mk, geom in combos:
                for alias in _aliases(mk, geom):
                    facets = {"prior": prior, "model": mk, "geom": geom, "via": "direct", "alias": alias, "_sig": ["model", "alias"]}

                    def build(prior=prior, mk=mk, geom=geom, alias=alias, facets=facets):
                        pieces = Pieces(alias)
                        pr, ins, out = make_prior(prior, p, k, npts, pieces)
                        if mk in USER_SHAPES:
                            lik = make_user_likelihood(p, k, geom=geom, shape=USER_SHAPES[mk], pieces=pieces)
                        else:
                            d, data = _likelihood(mk, geom, p, r, k, pieces=pieces)
                            lik = cuqi.likelihood.Likelihood(d, data)
                        post = D.Posterior(lik, pr)
                        return Case("Posterior", facets, post, ins, fd_targets=[post], pieces=pieces)
                    yield "Posterior", keys, facets, build
        return
    if group == "mlp":
        keys = ["prior", "liks", "extra", "via", "alias"]
        LIKS = ("user/matrix", "matrix/user", "userlin/jac", "matrix/userlin/userlin", "userquad/funadj", "funadj-flip/jac", "jac/dirjac")
        for prior in ("gaussian", "uniform", "userdefined"):
            for liks in LIKS:
                for via in ("direct", "joint"):
                    if via == "joint" and "user" in liks:       # joints refuse to condition with a user-defined member
                        continue
                    for alias in _aliases(*liks.split("/")):
                        facets = {"prior": prior, "liks": liks, "extra": "none", "via": via, "alias": alias, "_sig": ["liks", "alias"]}

                        def build(prior=prior, liks=liks, via=via, alias=alias, facets=facets):
                            pieces = Pieces(alias)
                            pr, ins, out = make_prior(prior, p, k, npts, pieces)
                            members, datas = [], {}
                            for j, mk in enumerate(liks.split("/")):
                                if mk in USER_SHAPES:
                                    members.append(make_user_likelihood(p, k, j=j, shape=USER_SHAPES[mk], name="u%d" % j, pieces=pieces))
                                    continue
                                d, data = _likelihood(mk, "default", p, r, k, noise=("gauss-cov-scalar", "gauss-cov-dense", "gauss-cov-vector")[j % 3],
                                                      j=j, name="y%d" % j, pieces=pieces)
                                members.append(d)
                                datas["y%d" % j] = data
                            if via == "direct":
                                dens = [cuqi.likelihood.Likelihood(d, datas[d.name]) if isinstance(d, D.Distribution) else d for d in members]
                                obj = D.MultipleLikelihoodPosterior(*(dens + [pr]))
                            else:
                                obj = D.JointDistribution(*(list(members) + [pr]))(**datas)
                                if not isinstance(obj, D.MultipleLikelihoodPosterior):
                                    raise TypeError("joint did not reduce to MultipleLikelihoodPosterior: %s" % type(obj).__name__)
                            return Case("MultipleLikelihoodPosterior", facets, obj, ins, fd_targets=list(obj._densities), pieces=pieces)
                        yield "MultipleLikelihoodPosterior", keys, facets, build
        # stacked joint of two distributions x, w plus user-defined / ordinary likelihood members
        keys = ["pair", "extra", "alias"]
        for extra in ("user", "lik+user", "lik+userlin"):
            for alias in ("fresh", "stored"):
                facets = {"pair": "gaussian/cauchy", "extra": extra, "alias": alias, "_sig": ["extra", "alias"]}

                def build(extra=extra, alias=alias, facets=facets):
                    pieces = Pieces(alias)
                    d1, i1, _ = make_prior("gaussian", p, k, npts)
                    d2, i2, _ = make_prior("cauchy", p, k + 1, npts)
                    d2.name = "w"
                    dens = [d1, d2]
                    if "lik" in extra:
                        d, data = _likelihood("jac", "default", p, r, k, pieces=pieces)
                        dens.insert(0, cuqi.likelihood.Likelihood(d, data))
                    dens.append(make_user_likelihood(p, k, j=1, par="w", name="u", shape="linear" if "userlin" in extra else "smooth",
                                                     pieces=pieces))
                    obj = D.JointDistribution(*dens)._as_stacked()
                    pts = [(n1, np.r_[x1, x2]) for (n1, x1), (n2, x2) in zip(i1, i2)]
                    return Case("_StackedJointDistribution", facets, obj, pts, fd_targets=[obj], pieces=pieces)
                yield "_StackedJointDistribution", keys, facets, build
        return
    raise ValueError(group)
