"""C07 - a linear model's adjoint is the transpose of its forward map.

E3 configuration explorer.  Linearity makes a basis complete: for every model the complete forward
matrix F = [forward(e_i)] and the complete adjoint matrix G = [adjoint(f_j)] are computed on the real
code (parameter-to-parameter maps, as exposed) and the check decides

    G == F^T                         (<A x, y> = <x, A* y> for all x, y)
    get_matrix() == F                (column by column)
    T.forward == adjoint, T.adjoint == forward, T.get_matrix() == get_matrix()^T

plus one linearity probe per map (so that "the basis decides everything" is itself checked), an independent
dense reference of F for the generic cells, and the input-representation facet (ndarray / CUQIarray of parameters /
CUQIarray of function values / function values with is_par=False): every representation of x and y must give
the same F and G, hence the same identities.
"""
import hashlib
import numpy as np
from vfw.core import CellResult, close
from vfw import refs
from checks import _tp_refs as tp

PROPERTY = "C07"
RULE = ("cells = generic models (backing dense/csr/csc/function pair x domain geometry kind x range geometry kind x "
        "shape; degenerate-shape facet: both sides column images (d, 1) - default tuple, Image2D order C / F, Continuous2D, the "
        "two sides independently - whose function values are 2-D under a matrix of the documented shape (range_dim, "
        "domain_dim), every backing; matrix-backed image models: a stored dense / csr / csc matrix L acting on the columns "
        "of the domain image, X -> L @ X, with L non-symmetric square on square images / square on non-square images / "
        "non-square, x domain image kind x range image kind (adjoint must be Y -> L^T @ Y; forward, adjoint, T.forward, "
        "T.adjoint and all input representations judged, get_matrix not); function-backed image models: operator kind L.X.R / shape-agnostic shift+cumsum / transposition x domain "
        "image kind x range image kind (default, Image2D order C, Image2D order F, Continuous2D - the two sides "
        "independently) x image shapes square / non-square, equal / different on the two sides, and image -> vector / "
        "vector -> image operators with the vector side default / Continuous1D) + shipped linear test "
        "problems (Deconvolution1D PSF x PSF size x BC x dim + legacy, Deconvolution2D PSF x PSF size x BC x dim, Abel1D "
        "dim x field type; PSF size relative to the signal: smaller than, equal to and LARGER than dim - both parities "
        "just above dim and the default 21 whatever dim is - so that the boundary extension is longer than the signal "
        "itself and a periodic one wraps around more than once); every cell evaluates forward on the complete domain basis and adjoint on the complete range "
        "basis of the real model, its get_matrix() and its transpose model T (taken before and after the matrix is "
        "cached); generic cells are also compared with an independent dense reference fun2par_range . A . par2fun_domain "
        "written out in numpy from the documented conventions (reshape/ravel order of the image kinds, identity-like, "
        "mapped and step-expansion 1-D kinds), and may not raise (neither in construction nor in any map); "
        "input-representation facet: every map (forward, adjoint, T.forward, "
        "T.adjoint) is re-evaluated on the complete basis and one generic vector with the argument handed over as "
        "CUQIarray of parameters / CUQIarray of function values / plain function values with is_par=False (each "
        "carrying the geometry of its side) and must give the plain-vector images, so <A x, y> = <x, A* y> and "
        "get_matrix() @ x == forward(x) hold for every pair of representations of x and y; "
        "option-representation facet: every option of the catalogued geometry classes and shipped problems that is a "
        "string or an enumerated value is given in every representation the library accepts - Image2D order 'C' / 'F' / "
        "'c' / 'f' (full product on the two sides), StepExpansion fun2par_projection 'mean' / 'max' / 'min' each lower / "
        "Capitalised / UPPER (max and min where they are linear: one node per step), Discrete(count) / Discrete(list of "
        "names), PSF and BC names of Deconvolution1D/2D lower / Capitalised / UPPER, legacy PSF names in their documented "
        "mixed case and the alias 'prolate'; integer-type facet: every integer constructor argument (image shape "
        "entries, sizes, n_steps, num_modes, dim, PSF_size) as numpy.int64 instead of int; a cell of these two facets "
        "runs the complete check above (its dense reference is written from the documented case-insensitive meaning of the "
        "option) and additionally must have the same F and G as its canonical twin (same options, canonical "
        "representation) and may refuse construction only if the twin is refused too; "
        "a cell is non-trivial when "
        "forward and adjoint were both evaluated (not refused) and F has at least two distinct non-zero entries")
BOUND = {
    "quick": "generic 1-D: 4 backings x 10x10 geometry kinds x shapes {4x5, 3x3}; + 11 re-represented 1-D kinds (2 Step "
             "mean spellings, 8 Step-full projection spellings, Discrete by names) on domain / range / both sides against "
             "{default} x 4 backings x shape 4x5; + numpy.int64 arguments: 6x6 kinds taking integers x {dense, function} x "
             "4x5; column images: 4x4 column kinds x 4 backings x shapes {4x5, 3x3} (+ 2 kind pairs x {dense, function} with "
             "numpy.int64 shape entries); matrix-backed image models: {dense, csr, csc} x 4x4 canonical image kinds x "
             "{L 3x3 on 3x3 images, L 3x3 on 3x2 images, L 3x2 on 2x3 images}; generic 2-D (function pair): 6x6 image "
             "geometry kinds (4 canonical + Image2D order 'c', 'f') x {L.X.R: (2x3)->(3x2), (2x3)->(2x3), (3x3)->(3x3); "
             "shift: 2x3, 3x3; transposition: 2x3, "
             "3x3} + image<->vector {(2x3)->4, (3x3)->2, 4->(2x3), 2->(3x3)} x 6 image kinds x 2 vector kinds; the same "
             "shapes with numpy.int64 shape entries x 4x4 canonical image kinds; 4 "
             "view-returning function pairs; Deconvolution1D dim {7,8} x 4 PSFs x PSF size {3,4,dim,dim+1,dim+2,21} x 5 BCs "
             "+ legacy (dim 8, 4 PSFs); Deconvolution2D dim {5,6} x 4 PSFs x PSF size {3,4,5,dim+1,dim+2,21} x 5 BCs; "
             "Abel1D dim {4,7} x "
             "4 field types; option spellings: Deconvolution1D dim 8 / Deconvolution2D dim 5, PSF size 3, 3 named PSFs x 5 "
             "BCs x {Capitalised, UPPER} (both names in the same style), 9 legacy PSF spellings; numpy.int64 dim / "
             "PSF_size / n_steps / num_modes: Deconvolution1D dim 8 and Deconvolution2D dim 5 x {gauss, custom} x size 3 x "
             "5 BCs, 4 legacy, Abel1D dim 7 x 4 field types; 4 input representations on forward/adjoint of every cell "
             "and on T.forward/T.adjoint of "
             "the generic cells; one value catalogue (seed % 3)",
    "thorough": "as quick with generic 1-D shapes {4x5, 5x4, 3x3, 6x6, 8x7}, the 11 re-represented 1-D kinds against all 10 "
                "canonical kinds x shapes {4x5, 3x3}, numpy.int64 1-D cells x 4 backings x {4x5, 3x3}, column images on all 5 "
                "shapes, matrix-backed image models with 6x6 image kinds x 6 (L, image) shapes, generic 2-D L.X.R 6 "
                "shape pairs, shift 5 "
                "shapes, transposition 3 shapes, image<->vector 3+3 shapes, all with 6x6 image kinds x {int, numpy.int64}, "
                "Deconvolution1D dim {7,8,12}, PSF size {3,4,5,6,dim,dim+1,dim+2,2dim+1,21}, Deconvolution2D "
                "dim {5,6,8} PSF size {3,4,5,6,dim+1,dim+2,2dim+1,21}, Abel1D dim {4,7,10}; option spellings of the shipped problems: PSF style x "
                "BC style independently (3x3-1) x PSF size {3,4}; numpy.int64 shipped cells x 4 PSFs x size {3,4}; 4 input "
                "representations on all four maps of "
                "every cell",
}
ASSUMPTIONS = [
    "a shipped test problem that raises in forward/adjoint/T is counted as refused, not as wrong; the generic models "
    "are built from callables defined on the documented function shape of geometries that have both maps, so a raise "
    "there is a failure",
    "MappedGeometry is only exercised with linear maps (flip, scaling) - a non-linear map makes the model non-linear; "
    "likewise StepExpansion's 'max' / 'min' projections are only exercised where they are linear (one grid node per "
    "step, where they coincide with the mean)",
    "equality is decided at 1e-9 relative on dense matrices of dimension <= 64",
    "the identity is checked in the Euclidean inner product of the parameter vectors (as the statement says)",
    "matrix-backed models with 1-D or column-image geometries are built with a matrix of shape (range_dim, domain_dim); "
    "a column image (d, 1) on one side is always paired with a column image on the other (M @ X of a column image is a "
    "column image; pairing it with a geometry whose function values are vectors would not be a well-formed model)",
    "a stored matrix L (r2 x r) given with image geometries (r, c) -> (r2, c) is accepted by the constructor (it makes "
    "no shape demand) and acts on the columns of the image, forward(x) = fun2par(L @ par2fun(x)); the statement's "
    "inner-product identity and transposed-model clauses are judged there (the adjoint is Y -> L^T @ Y), but its "
    "get_matrix() / T.get_matrix() are NOT judged: get_matrix is documented to hand back the stored matrix for the "
    "geometry classes whose maps only reshape, and that matrix is r2 x r, not range_dim x domain_dim",
    "the dense reference covers identity-like, mapped (flip/scale), step-expansion (documented step membership and "
    "mean projection) and image geometry kinds; for KL expansions "
    "the geometry maps are not re-implemented here (forward is then only compared with get_matrix/T/its other "
    "representations and, in the representation facets, its canonical twin)",
    "function-value representations of x are obtained with the geometry's own par2fun (they present the same x; the "
    "correctness of par2fun itself is judged through the dense reference where one exists)",
    "only the values of the returned parameter vectors are judged, not the wrapper type of the output",
    "option strings are read case-insensitively (the library lower-cases them or hands them to numpy, and its "
    "docstrings mix 'Gauss' / 'zero' / 'Mirror'); spellings the library does not accept on the unchanged tree (numpy's "
    "order 'A'/'K', which are not documented for Image2D; field_type of Abel1D, compared exactly) are not part of the "
    "alphabet; a bare numpy.int64 standing for the default 1-D geometry is refused by Model as documented ('int') and "
    "is not used",
    "PSF_size of Deconvolution1D/2D is documented as an integer with default 21 independent of dim and no upper "
    "limit, so a PSF larger than the signal / image is part of 'all their options' (it IS the default for dim < 21); "
    "the oracle there is the same as for every other size (G == F^T, get_matrix, T), a refusal (raise) is accepted",
    "for the shipped problems the oracle of a re-spelled / numpy-integer option is the differential one (same F and G "
    "as the canonical spelling, plus all identities of this property); whether the canonical operator is the "
    "documented convolution is C17's subject",
]

BACKINGS = ["dense", "csr", "csc", "func"]
KINDS1 = ["default", "Continuous1D", "Discrete", "Image2D-visual", "Mapped-flip", "Mapped-scale", "KL", "KL-trunc",
          "Step", "Step-full"]
# option-representation facet of the 1-D kinds: "<kind>/<representation>" is the SAME geometry as <kind> with one
# option written in another form the library accepts - StepExpansion(fun2par_projection=...) is documented as
# 'mean' / 'max' / 'min' and read case-insensitively (lower / Capitalised / UPPER); on "Step-full" (one node per
# step) the mean, the maximum and the minimum of a step are all that node's value, so all nine strings name the
# identity there; on "Step" (several nodes per step) only the mean is linear.  Discrete(variables) takes the
# number of variables or the list of their names.
KINDS1_REP = (["Step/Mean", "Step/MEAN"]
              + ["Step-full/%s" % p for p in ("Mean", "MEAN", "max", "Max", "MAX", "min", "Min", "MIN")]
              + ["Discrete/names"])
# degenerate-but-legal image shapes as 1-D kinds: a COLUMN image of shape (d, 1).  Its function values are 2-D arrays
# (par2fun reshapes the d parameters to (d, 1) in either order), its parameter map is the identity, and a matrix of the
# documented shape (range_dim, domain_dim) acts on such a function value exactly as on the vector: M @ X is (m, 1),
# M^T @ Y is (n, 1).  Every convention about the orientation of a 2-D function value inside forward / adjoint
# (left or right multiplication, transposed or not) is decided by these cells on non-square and non-symmetric M.
KINDS1_COL = ["default2D-col", "Image2D-col-C", "Image2D-col-F", "Continuous2D-col"]
# (both sides are column images: M @ X of a column image is a column image - with a 1-D geometry on the other side the
#  stored matrix would hand a 2-D value to a geometry whose function values are vectors: not a well-formed model)
KINDS2 = ["default2D", "Image2D-C", "Image2D-F", "Continuous2D"]
# Image2D(order=...): 'C' row-major, 'F' column-major; the string is handed to numpy, which reads it
# case-insensitively - the lower-case spellings are accepted and name the same two layouts
KINDS2_REP = ["Image2D-c", "Image2D-f"]
KINDS_VEC = ["default", "Continuous1D"]      # the vector side of an image <-> vector model
# kinds whose constructor takes integers (sizes, shape entries, n_steps, num_modes): the facet ints="np64" hands every
# one of them over as numpy.int64 instead of a Python int.  (A bare integer standing for the default 1-D geometry
# is documented to be of type int and stays one.)
KINDS1_INT = ["Continuous1D", "Discrete", "Image2D-visual", "KL-trunc", "Step", "Step-full"]
# canonical form of a kind (upper-case / lower-case documented spelling, integer count)
_CANON_KIND = {"Image2D-c": "Image2D-C", "Image2D-f": "Image2D-F"}


def _base(kind):
    """Kind without its option-representation suffix / spelling (the canonical twin)."""
    return _CANON_KIND.get(kind, kind.split("/")[0])


# kinds whose par2fun/fun2par may be applied twice without changing the result (re-applying is a no-op)
_REAPPLY_OK = {"default", "Continuous1D", "Discrete", "Image2D-visual", "Step-full", "default2D", "Image2D-C",
               "Image2D-F", "Continuous2D"} | set(KINDS1_COL)
# documented storage order of the image kinds (row-major unless order="F" is asked for, in either case)
_ORDER2 = {"default2D": "C", "Image2D-C": "C", "Image2D-F": "F", "Continuous2D": "C", "Image2D-c": "C",
           "Image2D-f": "F"}
# representation of the argument handed to forward / adjoint / T.forward / T.adjoint: the SAME parameter vector as
#   ndarray        plain vector of parameters (the default route)
#   CUQIarray-par  CUQIarray(is_par=True) carrying the geometry of the side it is given to
#   CUQIarray-fun  CUQIarray(is_par=False) holding the function values par2fun(x), carrying that geometry
#   ndarray-fun    plain array of function values par2fun(x), handed over with is_par=False
REPS = ["ndarray", "CUQIarray-par", "CUQIarray-fun", "ndarray-fun"]
# spellings of the option strings of the shipped test problems (PSF and BC names are documented capitalised -
# 'Gauss', 'Mirror', 'Neumann' - or lower-case - 'zero', 'periodic' - and read case-insensitively)
STYLES = ["lower", "Cap", "UPPER"]
# legacy Deconvolution1D: documented names 'Gauss', 'sinc' or 'prolate' (an alias), 'vonMises'
LEGACY_SPELLINGS = [("gauss", "Gauss"), ("gauss", "GAUSS"), ("sinc", "Sinc"), ("sinc", "SINC"), ("sinc", "prolate"),
                    ("sinc", "Prolate"), ("sinc", "PROLATE"), ("vonmises", "vonMises"), ("vonmises", "VONMISES")]


def _styled(name, style):
    return {"lower": name.lower(), "Cap": name.capitalize(), "UPPER": name.upper()}[style]


def _oversizes(dim, thorough):
    """PSF-size-relative-to-the-signal facet of the shipped deconvolution problems: PSF_size is accepted for any
    positive integer and defaults to 21 whatever dim is, so a PSF LARGER than the signal / image is a legal (and, for
    small dim, the default) configuration: the boundary extension is then longer than the signal itself (the periodic
    one wraps around more than once, the reflecting ones reflect repeatedly).  Sizes: the two parities just above dim
    (dim + 1, dim + 2), the default 21 (> 2 dim for every dim of the catalogue), thorough also 2 dim + 1."""
    return [dim + 1, dim + 2, 21] + ([2 * dim + 1] if thorough else [])


def gen2_shapes(thorough):
    """(r, c, r2, c2) per operator kind: non-square and square images, equal and different shapes on the two sides;
    c == 0 / c2 == 0: that side is a vector of r / r2 values."""
    if not thorough:
        return {"LXR": [(2, 3, 3, 2), (2, 3, 2, 3), (3, 3, 3, 3)],
                "shift": [(2, 3, 2, 3), (3, 3, 3, 3)],
                "transpose": [(2, 3, 3, 2), (3, 3, 3, 3)],
                "img2vec": [(2, 3, 4, 0), (3, 3, 2, 0)],
                "vec2img": [(4, 0, 2, 3), (2, 0, 3, 3)]}
    return {"LXR": [(2, 3, 3, 2), (2, 3, 2, 3), (3, 3, 3, 3), (3, 2, 2, 3), (3, 3, 4, 2), (4, 2, 4, 2)],
            "shift": [(2, 3, 2, 3), (3, 3, 3, 3), (3, 2, 3, 2), (4, 2, 4, 2), (2, 5, 2, 5)],
            "transpose": [(2, 3, 3, 2), (3, 3, 3, 3), (4, 2, 2, 4)],
            "img2vec": [(2, 3, 4, 0), (3, 3, 2, 0), (3, 2, 3, 0)],
            "vec2img": [(4, 0, 2, 3), (2, 0, 3, 3), (3, 0, 3, 2)]}


# ----------------------------------------------------------------------------------------
# enumeration
# ----------------------------------------------------------------------------------------
def cells(tier, seed):
    k = refs.cat(seed)
    thorough = tier != "quick"
    shapes1 = [(4, 5), (3, 3)] if not thorough else [(4, 5), (5, 4), (3, 3), (6, 6), (8, 7)]
    for b in BACKINGS:
        for (m, n) in shapes1:
            for dk in KINDS1:
                for rk in KINDS1:
                    yield {"fam": "gen1", "backing": b, "m": m, "n": n, "dk": dk, "rk": rk, "cat": k}
    # option-representation facet, 1-D kinds: a re-spelled / re-represented kind on the domain side, on the range side
    # and on both; the other side runs over {default} (quick) / every canonical kind (thorough)
    others = ["default"] if not thorough else KINDS1
    for b in BACKINGS:
        for (m, n) in (shapes1[:1] if not thorough else [(4, 5), (3, 3)]):
            for sk in KINDS1_REP:
                pairs = [(sk, sk)] + [(sk, o) for o in others] + [(o, sk) for o in others]
                for (dk, rk) in pairs:
                    yield {"fam": "gen1", "backing": b, "m": m, "n": n, "dk": dk, "rk": rk, "cat": k}
    # degenerate-shape facet: column images (d, 1) - 2-D function values under a matrix of shape (range_dim, domain_dim) -
    # on both sides (full product of the four column kinds, the two sides independently), every backing and shape
    for b in BACKINGS:
        for (m, n) in shapes1:
            for dk in KINDS1_COL:
                for rk in KINDS1_COL:
                    yield {"fam": "gen1", "backing": b, "m": m, "n": n, "dk": dk, "rk": rk, "cat": k}
    for (dk, rk) in [("Image2D-col-C", "Image2D-col-F"), ("default2D-col", "Continuous2D-col")]:
        for b in (("dense", "func") if not thorough else BACKINGS):
            yield {"fam": "gen1", "backing": b, "m": 4, "n": 5, "dk": dk, "rk": rk, "cat": k, "ints": "np64"}
    # integer-type facet, 1-D kinds: every integer constructor argument of both geometries as numpy.int64
    for b in (("dense", "func") if not thorough else BACKINGS):
        for (m, n) in (shapes1[:1] if not thorough else [(4, 5), (3, 3)]):
            for dk in KINDS1_INT:
                for rk in KINDS1_INT:
                    yield {"fam": "gen1", "backing": b, "m": m, "n": n, "dk": dk, "rk": rk, "cat": k, "ints": "np64"}
    # function-backed models whose forward/adjoint return VIEWS of their input (no allocation): reversal, restriction,
    # strided sub-sampling, identity - the matrix assembly must not alias the probing vector
    for view in ("reverse", "restrict", "stride", "identity"):
        for n in ((5,) if not thorough else (5, 8)):
            yield {"fam": "genview", "view": view, "n": n, "backing": "func", "dk": "default", "rk": "default", "cat": k}
    # 2-D, function-backed: domain image (r, c) -> range image (r2, c2); geometry kind of the two sides independently;
    # three operator kinds: "LXR" X -> L X R (shape-aware), "shift" X -> a X + b roll_rows + c roll_cols + d cumsum_rows
    # (same shape on both sides; defined for an image of ANY shape, so a geometry handing over a wrongly shaped image
    # is answered with wrong numbers, not with an exception), "transpose" X -> X^T (a view of its input)
    # (matrix-backed image models - a stored matrix acting on the columns of an image - follow further below)
    # image kinds: the canonical four plus every accepted spelling of Image2D's order (the full product on both sides);
    # integer-type facet: the shape entries (and vector sizes) as numpy.int64 - canonical kinds in the quick tier,
    # every kind in the thorough tier
    kinds2 = KINDS2 + KINDS2_REP
    for op, shapes in gen2_shapes(thorough).items():
        for (r, c, r2, c2) in shapes:
            # a side with 0 columns is a plain vector of r values (1-D geometry kinds): image <-> vector models
            for ints in ("py", "np64"):
                k2 = kinds2 if (ints == "py" or thorough) else KINDS2
                for dk in (k2 if c else KINDS_VEC):
                    for rk in (k2 if c2 else KINDS_VEC):
                        cell = {"fam": "gen2", "backing": "func", "op": op, "r": r, "c": c, "r2": r2, "c2": c2,
                                "dk": dk, "rk": rk, "cat": k}
                        if ints != "py":
                            cell["ints"] = ints
                        yield cell
    # 2-D, MATRIX-backed: a stored matrix L (r2 x r; dense / csr / csc) acting on the columns of the domain image,
    # X (r x c) -> L @ X (r2 x c) - the constructor accepts it (no shape demand), forward is L @ par2fun(x); its adjoint
    # is Y -> L^T @ Y.  Operator orientation facet: L non-symmetric square on square images (any other orientation of
    # the product is defined too, and silently different), L square on non-square images, L non-square.
    # get_matrix() of these models is not judged (see ASSUMPTIONS); forward / adjoint / T.forward / T.adjoint are.
    lx_shapes = [(3, 3, 3, 3), (3, 2, 3, 2), (2, 3, 3, 3)] + ([(3, 2, 2, 2), (4, 4, 4, 4), (2, 4, 2, 4)] if thorough else [])
    for b in ("dense", "csr", "csc"):
        for (r, c, r2, c2) in lx_shapes:
            for dk in (kinds2 if thorough else KINDS2):
                for rk in (kinds2 if thorough else KINDS2):
                    yield {"fam": "gen2", "backing": b, "op": "LX", "r": r, "c": c, "r2": r2, "c2": c2,
                           "dk": dk, "rk": rk, "cat": k}
    # shipped test problems: every representation on forward and adjoint; on the maps of the transposed model too in
    # the thorough tier (the transposed model is LinearModel machinery, covered with every representation above)
    tp_reps = "full" if thorough else "fwd-adj"
    dims1 = [7, 8] if not thorough else [7, 8, 12]
    for dim in dims1:
        sizes = [3, 4, dim] if not thorough else [3, 4, 5, 6, dim]
        sizes = sizes + _oversizes(dim, thorough)
        for psf in tp.PSF_NAMES:
            for size in sizes:
                for bc in tp.BC_1D:
                    yield {"fam": "deconv1d", "dim": dim, "PSF": psf, "size": size, "BC": bc, "cat": k,
                           "reps": tp_reps}
    for psf in ["gauss", "sinc", "vonmises", "custom"]:
        yield {"fam": "deconv1d-legacy", "dim": 8, "PSF": psf, "cat": k, "reps": tp_reps}
    dims2 = [5, 6] if not thorough else [5, 6, 8]
    for dim in dims2:
        sizes = [3, 4, 5] if not thorough else [3, 4, 5, 6]
        sizes = sorted(set(sizes + _oversizes(dim, thorough)))
        for psf in tp.PSF_NAMES:
            for size in sizes:
                for bc in tp.BC_2D:
                    yield {"fam": "deconv2d", "dim": dim, "PSF": psf, "size": size, "BC": bc, "cat": k,
                           "reps": tp_reps}
    for dim in ([4, 7] if not thorough else [4, 7, 10]):
        for field in ["none", "KL", "Step", "KL+scale-map"]:
            yield {"fam": "abel", "dim": dim, "field": field, "cat": k, "reps": tp_reps}
    # option-spelling facet of the shipped problems: every named PSF x every BC with both names written Capitalised /
    # UPPER-CASE (quick: the two options in the same style; thorough: the styles of the two options independently)
    for fam, dim, bcs in (("deconv1d", 8, tp.BC_1D), ("deconv2d", 5, tp.BC_2D)):
        for size in ([3] if not thorough else [3, 4]):
            for psf in [p for p in tp.PSF_NAMES if p != "custom"]:
                for bc in bcs:
                    for ps in STYLES:
                        for bs in (STYLES if thorough else [ps]):
                            if ps == "lower" and bs == "lower":
                                continue
                            yield {"fam": fam, "dim": dim, "PSF": psf, "size": size, "BC": bc, "cat": k,
                                   "reps": tp_reps, "PSF_as": _styled(psf, ps), "BC_as": _styled(bc, bs)}
    for canon, spelled in LEGACY_SPELLINGS:
        yield {"fam": "deconv1d-legacy", "dim": 8, "PSF": canon, "cat": k, "reps": tp_reps, "PSF_as": spelled}
    # integer-type facet of the shipped problems: dim, PSF_size, n_steps, num_modes as numpy.int64
    for fam, dim, bcs in (("deconv1d", 8, tp.BC_1D), ("deconv2d", 5, tp.BC_2D)):
        for psf in (["gauss", "custom"] if not thorough else tp.PSF_NAMES):
            for size in ([3] if not thorough else [3, 4]):
                for bc in bcs:
                    yield {"fam": fam, "dim": dim, "PSF": psf, "size": size, "BC": bc, "cat": k, "reps": tp_reps,
                           "ints": "np64"}
    for psf in ["gauss", "sinc", "vonmises", "custom"]:
        yield {"fam": "deconv1d-legacy", "dim": 8, "PSF": psf, "cat": k, "reps": tp_reps, "ints": "np64"}
    for field in ["none", "KL", "Step", "KL+scale-map"]:
        yield {"fam": "abel", "dim": 7, "field": field, "cat": k, "reps": tp_reps, "ints": "np64"}


def canonical(cell):
    """The cell whose options are all written in their canonical representation (documented upper-case order,
    lower-case option strings, counts instead of name lists, Python ints), or None when ``cell`` is canonical."""
    c = dict(cell)
    c.pop("ints", None)
    c.pop("PSF_as", None)
    c.pop("BC_as", None)
    if "dk" in c:
        c["dk"], c["rk"] = _base(c["dk"]), _base(c["rk"])
    return None if c == cell else c


def _variant_facet(cell):
    """Names which representation facet(s) distinguish the cell from its canonical twin."""
    f = []
    if (("dk" in cell and (_base(cell["dk"]) != cell["dk"] or _base(cell["rk"]) != cell["rk"]))
            or "PSF_as" in cell or "BC_as" in cell):
        f.append("option-representation")
    if cell.get("ints", "py") != "py":
        f.append("int-type")
    return "+".join(f)


# ----------------------------------------------------------------------------------------
# builders
# ----------------------------------------------------------------------------------------
def _flip(f):
    return f[::-1]


def _twice(f):
    return 2.0 * f


def _half(f):
    return 0.5 * f


def make_geom(kind, d, ints="py"):
    """Geometry of the given kind whose function space has ``d`` values (1-D kinds) / shape d (2-D kinds).
    ``ints``: type in which integer constructor arguments are handed over ("py": int, "np64": numpy.int64)."""
    import cuqi.geometry as g
    I = np.int64 if ints == "np64" else int
    if kind == "default":
        return int(d)           # documented: 'int'
    if kind == "Continuous1D":
        return g.Continuous1D(I(d))
    if kind == "Discrete":
        return g.Discrete(I(d))
    if kind == "Discrete/names":
        return g.Discrete(["v%d" % i for i in range(d)])
    if kind == "Image2D-visual":
        return g.Image2D((I(1), I(d)), visual_only=True)
    if kind == "Mapped-flip":
        return g.MappedGeometry(g.Continuous1D(I(d)), _flip, _flip)
    if kind == "Mapped-scale":
        return g.MappedGeometry(g.Continuous1D(I(d)), _twice, _half)
    if kind == "KL":
        return g.KLExpansion(np.linspace(0, 1, d), decay_rate=1.5, normalizer=2.0)
    if kind == "KL-trunc":
        return g.KLExpansion(np.linspace(0, 1, d), decay_rate=1.5, normalizer=2.0, num_modes=I(d - 1))
    if kind.split("/")[0] in ("Step", "Step-full"):
        kw = {"fun2par_projection": kind.split("/")[1]} if "/" in kind else {}
        return g.StepExpansion(np.linspace(0, 1, d), n_steps=I(2 if kind.split("/")[0] == "Step" else d), **kw)
    if kind == "default2D-col":
        return (I(d), I(1))
    if kind in ("Image2D-col-C", "Image2D-col-F"):
        return g.Image2D((I(d), I(1)), order=kind[-1])
    if kind == "Continuous2D-col":
        return g.Continuous2D((I(d), I(1)))
    if kind == "default2D":
        return tuple(I(s) for s in d)
    if kind in ("Image2D-C", "Image2D-F", "Image2D-c", "Image2D-f"):
        return g.Image2D(tuple(I(s) for s in d), order=kind[-1])
    if kind == "Continuous2D":
        return g.Continuous2D(tuple(I(s) for s in d))
    raise ValueError(kind)


def _wrap_matrix(M, backing):
    import scipy.sparse as sp
    if backing == "dense":
        return M.copy()
    if backing == "csr":
        return sp.csr_matrix(M)
    if backing == "csc":
        return sp.csc_matrix(M)
    raise ValueError(backing)


def build(cell):
    """-> (model, component name, fall-back facet naming a fault of the model's own callables)."""
    import cuqi
    from cuqi.model import LinearModel
    fam, k = cell["fam"], cell["cat"]
    ints = cell.get("ints", "py")
    I = np.int64 if ints == "np64" else int
    if fam == "gen1":
        m, n, b = cell["m"], cell["n"], cell["backing"]
        M = refs.full_matrix(m, n, k)
        dg, rg = make_geom(cell["dk"], n, ints), make_geom(cell["rk"], m, ints)
        if b == "func":
            model = LinearModel(lambda x: M @ x, lambda y: M.T @ y, range_geometry=rg, domain_geometry=dg)
        else:
            model = LinearModel(_wrap_matrix(M, b), range_geometry=rg, domain_geometry=dg)
        return model, "LinearModel", "backing=%s,geometry=%s" % (_bk(b), _gcat(cell))
    if fam == "genview":
        n, view = cell["n"], cell["view"]
        if view == "reverse":
            m, fwd, adj = n, (lambda x: x[::-1]), (lambda y: y[::-1])
        elif view == "identity":
            m, fwd, adj = n, (lambda x: x), (lambda y: y)
        elif view == "restrict":
            m = n - 2
            fwd = lambda x: x[:m]

            def adj(y):
                out = np.zeros(n)
                out[:m] = y
                return out
        else:
            m = (n + 1) // 2
            fwd = lambda x: x[::2]

            def adj(y):
                out = np.zeros(n)
                out[::2] = y
                return out
        model = LinearModel(fwd, adj, range_geometry=m, domain_geometry=n)
        return model, "LinearModel", "backing=function-view,geometry=identity"
    if fam == "gen2":
        fwd, adj = _gen2_pair(cell)
        dg = make_geom(cell["dk"], (cell["r"], cell["c"]) if cell["c"] else cell["r"], ints)
        rg = make_geom(cell["rk"], (cell["r2"], cell["c2"]) if cell["c2"] else cell["r2"], ints)
        if cell["backing"] != "func":       # op "LX": the matrix itself is handed over, the library derives both maps
            Lm = refs.full_matrix(cell["r2"], cell["r"], k)
            model = LinearModel(_wrap_matrix(Lm, cell["backing"]), range_geometry=rg, domain_geometry=dg)
            return model, "LinearModel", "backing=matrix,geometry=image"
        model = LinearModel(fwd, adj, range_geometry=rg, domain_geometry=dg)
        return model, "LinearModel", "backing=function,geometry=image"
    if fam == "deconv1d":
        P = tp.custom_psf_1d(cell["size"], k) if cell["PSF"] == "custom" else cell.get("PSF_as", cell["PSF"])
        prob = cuqi.testproblem.Deconvolution1D(dim=I(cell["dim"]), PSF=P, PSF_param=[1.25, 2.0, 1.5][k],
                                                PSF_size=I(cell["size"]), BC=cell.get("BC_as", cell["BC"]))
        return prob.model, "Deconvolution1D", "BC=%s,PSF=%s" % (cell["BC"], cell["PSF"])
    if fam == "deconv1d-legacy":
        P = tp.custom_psf_1d(cell["dim"], k) if cell["PSF"] == "custom" else cell.get("PSF_as", cell["PSF"])
        prob = cuqi.testproblem.Deconvolution1D(dim=I(cell["dim"]), PSF=P, use_legacy=True)
        return prob.model, "Deconvolution1D", "legacy,PSF=%s" % cell["PSF"]
    if fam == "deconv2d":
        dim = cell["dim"]
        P = tp.custom_psf_2d(cell["size"], k) if cell["PSF"] == "custom" else cell.get("PSF_as", cell["PSF"])
        prob = cuqi.testproblem.Deconvolution2D(dim=I(dim), PSF=P, PSF_param=[1.25, 2.0, 1.5][k],
                                                PSF_size=I(cell["size"]), BC=cell.get("BC_as", cell["BC"]),
                                                phantom=refs.dyadic_vec(dim * dim, k).reshape(dim, dim))
        if cell["size"] % 2 == 0:
            facet = "PSF_size=even"
        else:
            facet = "BC=%s" % cell["BC"]
        return prob.model, "Deconvolution2D", facet
    if fam == "abel":
        f = cell["field"]
        kw = {}
        if f == "KL":
            kw = {"field_type": "KL", "field_params": {"num_modes": I(cell["dim"] - 1)}}
        elif f == "Step":
            kw = {"field_type": "Step", "field_params": {"n_steps": I(2)}}
        elif f == "KL+scale-map":
            kw = {"field_type": "KL", "KL_map": _twice, "KL_imap": _half}
        prob = cuqi.testproblem.Abel1D(dim=I(cell["dim"]), **kw)
        return prob.model, "Abel1D", "field_type=%s" % f
    raise ValueError(fam)


def _gen2_pair(cell):
    """The image operator of a gen2 cell and its exact transpose (plain numpy; both propagate ndarray subclasses)."""
    r, c, r2, c2, k, op = cell["r"], cell["c"], cell["r2"], cell["c2"], cell["cat"], cell["op"]
    if op == "LXR":
        Lm = refs.full_matrix(r2, r, k)
        Rm = refs.full_matrix(c, c2, k + 1)
        return (lambda X: Lm @ X @ Rm), (lambda Y: Lm.T @ Y @ Rm.T)
    if op == "LX":           # a matrix acting on the columns of the image; c2 == c
        Lm = refs.full_matrix(r2, r, k)
        return (lambda X: Lm @ X), (lambda Y: Lm.T @ Y)
    if op == "shift":
        a, b, g, d = [(1.0, 0.5, 2.0, 0.25), (0.5, 2.0, -1.0, 0.75), (-1.5, 1.0, 0.25, 0.5)][k]

        def fwd(X):
            return a * X + b * np.roll(X, 1, axis=0) + g * np.roll(X, 1, axis=1) + d * np.cumsum(X, axis=0)

        def adj(Y):
            return (a * Y + b * np.roll(Y, -1, axis=0) + g * np.roll(Y, -1, axis=1)
                    + d * np.cumsum(Y[::-1], axis=0)[::-1])
        return fwd, adj
    if op == "transpose":
        return (lambda X: X.T), (lambda Y: Y.T)
    if op == "img2vec":      # image (r, c) -> vector of r2 values
        Lm = refs.full_matrix(r2, r, k)
        rv = refs.dyadic_vec(c, k + 1)
        return (lambda X: Lm @ X @ rv), (lambda y: Lm.T @ np.multiply.outer(y, rv))
    if op == "vec2img":      # vector of r values -> image (r2, c2)
        Lm = refs.full_matrix(r2, r, k)
        rv = refs.dyadic_vec(c2, k + 1)
        return (lambda x: np.multiply.outer(Lm @ x, rv)), (lambda Y: Lm.T @ (Y @ rv))
    raise ValueError(op)


def _to_fun(e, rows, cols, kind):
    """Documented parameter -> function conversion of one side of a gen2 cell (vector side: identity)."""
    return np.reshape(e, (rows, cols), order=_ORDER2[kind]) if cols else e


def _to_par(f, cols, kind):
    return np.ravel(f, order=_ORDER2[kind]) if cols else np.asarray(f)


def _flipmat(d):
    return np.eye(d)[::-1]


def _step_membership(d, n_steps):
    """S[j, i] = 1 when node j of the uniform grid of d nodes on [x0, x0 + L] lies in step i, as documented:
    step i covers (x0 + i L/n, x0 + (i+1) L/n], the first step includes x0.  Node j sits at x0 + j L/(d-1); the
    comparison is done in exact integer arithmetic (j n > i (d-1) and j n <= (i+1)(d-1))."""
    S = np.zeros((d, n_steps))
    for j in range(d):
        for i in range(n_steps):
            lower = (j * n_steps > i * (d - 1)) or (i == 0 and j == 0)
            if lower and j * n_steps <= (i + 1) * (d - 1):
                S[j, i] = 1.0
    assert np.all(S.sum(axis=1) == 1.0), "harness: every node belongs to exactly one step"
    return S


def _step_projection(kind):
    """Documented meaning of the (case-insensitive) projection string of a Step kind: mean / max / min."""
    return kind.split("/")[1].lower() if "/" in kind else "mean"


def _par2fun_1d(kind, d):
    """Independent par2fun matrix of the 1-D kinds whose maps are written out here (None: no reference)."""
    base = _base(kind)
    if base in _IDENTITY:
        return np.eye(d)
    if base == "Mapped-flip":
        return _flipmat(d)
    if base == "Mapped-scale":
        return 2.0 * np.eye(d)
    if base == "Step":                      # the step function with the parameters as step heights
        return _step_membership(d, 2)
    return None


def _fun2par_1d(kind, d):
    base = _base(kind)
    if base in _IDENTITY:                   # incl. Step-full: one node per step - its mean = max = min = its value
        return np.eye(d)
    if base == "Mapped-flip":
        return _flipmat(d)
    if base == "Mapped-scale":
        return 0.5 * np.eye(d)
    if base == "Step" and _step_projection(kind) == "mean":    # average of the node values of each step
        S = _step_membership(d, 2)
        return (S / S.sum(axis=0)).T
    return None


def reference(cell):
    """Independent dense reference (plain numpy, documented conventions only) of the parameter-to-parameter forward
    matrix of a generic cell, or None where the geometry's maps are not re-implemented here (KL expansions)."""
    fam, k = cell["fam"], cell["cat"]
    if fam == "gen1":
        m, n = cell["m"], cell["n"]
        P, Q = _par2fun_1d(cell["dk"], n), _fun2par_1d(cell["rk"], m)
        if P is None or Q is None:
            return None
        return Q @ refs.full_matrix(m, n, k) @ P
    if fam == "genview":
        n, view = cell["n"], cell["view"]
        I = np.eye(n)
        return {"reverse": I[::-1], "identity": I, "restrict": I[: n - 2], "stride": I[::2]}[view].copy()
    if fam == "gen2":
        r, c, r2, c2, dk, rk = cell["r"], cell["c"], cell["r2"], cell["c2"], cell["dk"], cell["rk"]
        fwd, adj = _gen2_pair(cell)
        n, m = r * max(c, 1), r2 * max(c2, 1)
        Fr = np.array([_to_par(fwd(_to_fun(e, r, c, dk)), c2, rk) for e in np.eye(n)]).T
        Gr = np.array([_to_par(adj(_to_fun(f, r2, c2, rk)), c, dk) for f in np.eye(m)]).T
        assert Fr.shape == (m, n) and np.allclose(Gr, Fr.T, rtol=0, atol=1e-12), "harness: operator pair is not adjoint"
        return Fr
    return None


def _image_side_matches(geom, shape, order):
    """True when the real image geometry converts vector <-> image as documented (used for *naming* the failing side
    only): par2fun(e) == e.reshape(shape, order) and fun2par(E) == E.ravel(order) on the complete bases."""
    try:
        d = int(shape[0] * shape[1])
        for i in range(d):
            e = np.zeros(d)
            e[i] = 1.0
            E = np.reshape(e, tuple(shape), order=order)
            f = np.asarray(geom.par2fun(e.copy()), dtype=float)
            if f.shape != E.shape or not np.array_equal(f, E):
                return False
            p = np.asarray(geom.fun2par(E.copy()), dtype=float)
            if p.shape != e.shape or not np.array_equal(p, e):
                return False
        return True
    except Exception:
        return False


def _side_matches_1d(geom, P, Q):
    """True when the real 1-D geometry's par2fun has the matrix P / its fun2par the matrix Q (the one given) on the
    complete bases (used for *naming* the failing side only)."""
    try:
        if P is not None:
            got = np.array([np.asarray(geom.par2fun(e.copy()), dtype=float).ravel() for e in np.eye(P.shape[1])]).T
            if got.shape != P.shape or not close(got, P, 1e-9):
                return False
        if Q is not None:
            got = np.array([np.asarray(geom.fun2par(e.copy()), dtype=float).ravel() for e in np.eye(Q.shape[1])]).T
            if got.shape != Q.shape or not close(got, Q, 1e-9):
                return False
        return True
    except Exception:
        return False


def _bk(b):
    return "function" if b == "func" else "matrix"


_IDENTITY = ("default", "Continuous1D", "Discrete", "Image2D-visual", "Step-full") + tuple(KINDS1_COL)


def _gcat(cell):
    """Coarse geometry category for failures that are *not* attributable to a geometry side."""
    return "identity" if (_base(cell["dk"]) in _IDENTITY and _base(cell["rk"]) in _IDENTITY) else "non-identity"


def _dense(M):
    return np.asarray(M.todense()) if hasattr(M, "todense") else np.asarray(M)


def _cls(geom):
    return type(geom).__name__.lstrip("_")


# ----------------------------------------------------------------------------------------
# basis evaluation helpers (all on the real code)
# ----------------------------------------------------------------------------------------
def _as_rep(x, geom, rep):
    """-> (argument, keyword arguments) presenting the parameter vector ``x`` of the side with geometry ``geom`` in
    the representation ``rep``.  Function values are par2fun(x) of that geometry (plain ndarray data)."""
    if rep == "ndarray":
        return x, {}
    from cuqi.array import CUQIarray
    if rep == "CUQIarray-par":
        return CUQIarray(x.copy(), is_par=True, geometry=geom), {}
    f = np.array(np.asarray(geom.par2fun(x.copy())), dtype=float)
    if rep == "CUQIarray-fun":
        return CUQIarray(f, is_par=False, geometry=geom), {}
    if rep == "ndarray-fun":
        return f, {"is_par": False}
    raise ValueError(rep)


def _apply(fn, x, geom, rep):
    arg, kw = _as_rep(x, geom, rep)
    return np.array(np.asarray(fn(arg, **kw)), dtype=float).ravel()


def _columns(fn, n, res, geom=None, rep="ndarray"):
    cols = []
    for i in range(n):
        e = np.zeros(n)
        e[i] = 1.0
        res.transitions += 1
        cols.append(_apply(fn, e, geom, rep))
    return np.array(cols).T if cols else np.zeros((0, 0))


def _try_columns(fn, n, res, what, geom=None, rep="ndarray", raise_sig=None):
    """Basis images of ``fn``; a raise is a refusal unless ``raise_sig`` is given (harness-built generic models whose
    callables are defined on the documented function shape: nothing to refuse), then it is a failure."""
    try:
        return _columns(fn, n, res, geom, rep)
    except Exception as e:
        if raise_sig is not None:
            res.fail(raise_sig, "%s raised on a basis vector (%s input) although the model's callables are defined on "
                     "the geometry's documented function shape: %r" % (what, rep, e))
            res.outcomes.add("%s-raised:%s" % (what, type(e).__name__))
            return None
        res.refused += 1
        res.outcomes.add("%s-refused:%s" % (what, type(e).__name__))
        return None


def _check_representations(res, label, fn, n_in, geom, base, probe, strict, reps):
    """The map ``fn`` (forward / adjoint / T.forward / T.adjoint) must not depend on how its argument is presented:
    for every representation its images of the complete basis equal ``base`` (the plain-vector images), and one
    generic vector is mapped to ``base @ probe``."""
    for rep in reps:
        if rep == "ndarray":
            continue
        # one signature per representation: all four maps go through the same conversion of the argument
        # (Model._apply_func), the message names the map
        sig = "C07|LinearModel|input-representation|rep=%s" % rep
        M = _try_columns(fn, n_in, res, "%s(%s)" % (label, rep), geom, rep, raise_sig=sig if strict else None)
        if M is None:
            continue
        res.evaluations += 1
        same = M.shape == base.shape and close(M, base, 1e-9)
        res.outcomes.add("%s:%s:%s" % (label, rep, "same" if same else "differs"))
        if not same:
            res.fail(sig, "%s of the basis vectors handed over as %s differs from %s of the same vectors handed over as "
                     "plain parameter vectors (max diff %r)" % (label, rep, label,
                     float(np.max(np.abs(M - base))) if M.shape == base.shape else M.shape), got=M, plain=base)
            continue
        try:
            res.transitions += 1
            res.traces += 1
            out = _apply(fn, probe.copy(), geom, rep)
            if not (out.shape == (base.shape[0],) and close(out, base @ probe, 1e-9)):
                res.fail(sig, "%s(v) for a generic vector v handed over as %s differs from the matrix of basis images "
                         "applied to v" % (label, rep))
        except Exception as e:
            res.fail(sig, "%s raised on a generic vector (%s) after accepting the basis: %r" % (label, rep, e))


def _geometry_transposes(geom):
    """True when the geometry's fun2par (as a matrix on the complete function basis) is the transpose of its
    par2fun - the condition under which wrapping a raw adjoint with the geometry maps can be an adjoint.
    Computed on the real geometry object (used for *naming* the failing side only)."""
    try:
        p = geom.par_dim
        P = []
        shape = None
        for i in range(p):
            e = np.zeros(p)
            e[i] = 1.0
            f = np.asarray(geom.par2fun(e), dtype=float)
            shape = f.shape
            P.append(f.ravel())
        P = np.array(P).T                      # fun_dim x par_dim
        Q = []
        for j in range(P.shape[0]):
            E = np.zeros(P.shape[0])
            E[j] = 1.0
            Q.append(np.asarray(geom.fun2par(E.reshape(shape)), dtype=float).ravel())
        Q = np.array(Q).T                      # par_dim x fun_dim
        return Q.shape == P.T.shape and close(Q, P.T, 1e-9)
    except Exception:
        return False


# ----------------------------------------------------------------------------------------
# the check of one model
# ----------------------------------------------------------------------------------------
def check_model(res, model, comp, facet, cell):
    n, m = int(model.domain_dim), int(model.range_dim)
    k = cell["cat"]
    res.state("model")
    matrix_backed = model._matrix is not None
    bk = "matrix" if matrix_backed else "function"
    # faults of LinearModel's own machinery (matrix, transpose model, matrix-backed maps) are named by backing
    # and a coarse geometry category only; the test problem's options name a fault only for its own callables
    if cell["fam"] in ("gen1", "gen2", "genview"):
        gfacet = facet
    else:
        gcat = {"deconv1d": "identity", "deconv1d-legacy": "identity", "deconv2d": "image"}.get(
            cell["fam"], "identity" if cell.get("field") == "none" else "non-identity")
        gfacet = "backing=%s,geometry=%s" % (bk, gcat)
    comp0 = comp        # the component whose constructor reads the options (the test problem / LinearModel)
    if matrix_backed:
        comp, facet = "LinearModel", gfacet
    # generic models are built here from callables defined on the geometries' documented function shapes (and every
    # geometry kind used has both maps): they have nothing to refuse; a shipped test problem may refuse
    strict = cell["fam"] in ("gen1", "gen2", "genview")
    # a stored matrix acting on the columns of an image is not of shape (range_dim, domain_dim): get_matrix() hands the
    # stored matrix back (documented for the identity-like geometry classes) - not judged, see ASSUMPTIONS
    judge_matrix = not (cell["fam"] == "gen2" and matrix_backed)
    reps = REPS
    t_reps = REPS if cell.get("reps", "full") == "full" else REPS[:1]
    dgeom, rgeom = model.domain_geometry, model.range_geometry
    F = _try_columns(model.forward, n, res, "forward",
                     raise_sig=("C07|LinearModel|forward-raises|%s" % gfacet) if strict else None)
    G = _try_columns(model.adjoint, m, res, "adjoint",
                     raise_sig=("C07|LinearModel|adjoint-raises|%s" % gfacet) if strict else None)
    if F is None or G is None:
        res.nontrivial = False
        return
    if F.shape != (m, n):
        res.fail("C07|%s|forward-shape|%s" % (comp, facet), "forward basis images have shape %s, range_dim x domain_dim is %s"
                 % (F.shape, (m, n)))
        return
    vals = np.unique(np.round(F[np.abs(F) > 1e-14], 12))
    if vals.size < 2:
        res.nontrivial = False

    # ---- (0) independent reference of the parameter-to-parameter forward matrix (generic cells) ----------
    Fref = reference(cell)
    if Fref is not None:
        res.evaluations += 1
        res.traces += n
        ref_ok = Fref.shape == F.shape and close(F, Fref, 1e-9)
        res.outcomes.add("reference:%s" % ("ok" if ref_ok else "differs"))
        if not ref_ok:
            blamed = []
            if cell["fam"] == "gen2":
                if cell["c"] and not _image_side_matches(dgeom, (cell["r"], cell["c"]), _ORDER2[cell["dk"]]):
                    blamed.append("domain=%s" % cell["dk"])
                if cell["c2"] and not _image_side_matches(rgeom, (cell["r2"], cell["c2"]), _ORDER2[cell["rk"]]):
                    blamed.append("range=%s" % cell["rk"])
            if cell["fam"] == "gen1":
                if not _side_matches_1d(dgeom, _par2fun_1d(cell["dk"], cell["n"]), None):
                    blamed.append("domain=%s" % cell["dk"])
                if not _side_matches_1d(rgeom, None, _fun2par_1d(cell["rk"], cell["m"])):
                    blamed.append("range=%s" % cell["rk"])
            for b in (blamed or [gfacet]):
                res.fail("C07|LinearModel|forward-reference|%s" % b,
                         "forward on the complete basis differs from the dense reference fun2par_range . A . par2fun_domain "
                         "written out from the documented conventions (max diff %r)" %
                         (float(np.max(np.abs(F - Fref))),), F=F, Fref=Fref)

    dom_ok = _geometry_transposes(model.domain_geometry)
    ran_ok = _geometry_transposes(model.range_geometry)
    identity_geoms = _base(cell.get("dk", "?")) in _IDENTITY and _base(cell.get("rk", "?")) in _IDENTITY
    if cell["fam"] in ("deconv1d", "deconv1d-legacy") or (cell["fam"] == "abel" and cell["field"] == "none"):
        identity_geoms = True
    reapply_ok = (_base(cell.get("dk", "default")) in _REAPPLY_OK and _base(cell.get("rk", "default")) in _REAPPLY_OK)
    if cell["fam"] == "abel":
        reapply_ok = cell["field"] == "none"

    # ---- (1) inner-product identity on the complete bases: G == F^T ---------------------------
    res.evaluations += 1
    adj_ok = G.shape == (n, m) and close(G, F.T, 1e-9)
    if not adj_ok:
        err = float(np.max(np.abs(G - F.T))) if G.shape == (n, m) else None
        ij = np.unravel_index(int(np.argmax(np.abs(G - F.T))), G.shape) if G.shape == (n, m) else None
        blamed = []
        if not dom_ok:
            blamed.append("domain=%s" % _cls(model.domain_geometry))
        if not ran_ok:
            blamed.append("range=%s" % _cls(model.range_geometry))
        msg = ("<A e_j, f_i> != <e_j, A* f_i>: max |G - F^T| = %r at (x=e_%s, y=f_%s)" %
               (err, ij[0] if ij else "?", ij[1] if ij else "?"))
        if blamed:
            for b in blamed:
                res.fail("C07|LinearModel|adjoint|%s" % b, msg + " (this geometry's fun2par is not the transpose of "
                         "its par2fun, yet adjoint wraps the raw adjoint with fun2par/par2fun)", F=F, G=G)
        else:
            res.fail("C07|%s|adjoint|%s" % (comp, facet), msg, F=F, G=G)
    res.outcomes.add("adjoint:%s" % ("ok" if adj_ok else "differs"))
    res.outcomes.add("F#" + hashlib.sha1(np.round(F, 9).tobytes()).hexdigest()[:10])   # distinct operators seen

    # ---- (1b) option-representation / integer-type facets: same options, same model ------------------
    # a cell whose options are written in another accepted representation (spelling of an option string, list of
    # names for a count, numpy.int64 for int) presents the SAME model as its canonical twin: identical F and G
    canon = canonical(cell)
    if canon is not None:
        vf = _variant_facet(cell)
        try:
            twin = build(canon)[0]
            Fc = _columns(twin.forward, n, res)
            Gc = _columns(twin.adjoint, m, res)
        except Exception as e:        # the canonical cell is judged in its own right elsewhere
            Fc = Gc = None
            res.outcomes.add("twin-unavailable:" + type(e).__name__)
        if Fc is not None:
            res.evaluations += 2
            res.traces += n + m
            f_same = Fc.shape == F.shape and close(F, Fc, 1e-9)
            g_same = Gc.shape == G.shape and close(G, Gc, 1e-9)
            res.outcomes.add("twin:%s/%s" % ("same" if f_same else "differs", "same" if g_same else "differs"))
            what = _variant_text(cell)
            if not f_same:
                res.fail("C07|%s|forward|%s" % (comp0, vf), "forward on the complete basis differs from forward of the same "
                         "model with its options in canonical form (%s): max diff %r" %
                         (what, float(np.max(np.abs(F - Fc))) if Fc.shape == F.shape else Fc.shape), F=F, F_canonical=Fc)
            if not g_same:
                res.fail("C07|%s|adjoint|%s" % (comp0, vf), "adjoint on the complete basis differs from adjoint of the same "
                         "model with its options in canonical form (%s): max diff %r" %
                         (what, float(np.max(np.abs(G - Gc))) if Gc.shape == G.shape else Gc.shape), G=G, G_canonical=Gc)

    # ---- linearity probes (one per map) --------------------------------------------------------
    v = refs.dyadic_vec(n, k)
    w = refs.dyadic_vec(m, k + 1)
    try:
        res.transitions += 2
        res.traces += 2        # F v and G w predicted from the basis, replayed on the implementation
        fv = np.asarray(model.forward(v), dtype=float).ravel()
        gw = np.asarray(model.adjoint(w), dtype=float).ravel()
        if not close(fv, F @ v, 1e-9):
            res.fail("C07|%s|forward-linearity|%s" % (comp, facet), "forward(v) != sum v_i forward(e_i)")
        if not close(gw, G @ w, 1e-9):
            res.fail("C07|%s|adjoint-linearity|%s" % (comp, facet), "adjoint(w) != sum w_j adjoint(f_j)")
    except Exception as e:
        res.fail("C07|%s|probe-raises|%s" % (comp, facet), "forward/adjoint raised on a generic vector after accepting "
                 "the basis: %r" % (e,))

    # ---- input-representation facet: the same x / y as CUQIarray (parameters / function values) ... ----
    _check_representations(res, "forward", model.forward, n, dgeom, F, v, strict, reps)
    _check_representations(res, "adjoint", model.adjoint, m, rgeom, G, w, strict, reps)

    # ---- (3a) transpose model taken before the matrix is cached ----------------------------------
    t_forward_ok = False
    try:
        T0 = model.T
    except Exception as e:
        T0 = None
        res.refused += 1
        res.outcomes.add("T-refused:" + type(e).__name__)
    if T0 is not None:
        res.state("T")
        t_facet = gfacet if reapply_ok else "geometry=non-identity"
        t_comp = "LinearModel"
        TF = _try_columns(T0.forward, m, res, "T.forward",
                          raise_sig=("C07|LinearModel|T.forward-raises|%s" % gfacet) if strict else None)
        if TF is not None:
            res.evaluations += 1
            t_forward_ok = TF.shape == G.shape and close(TF, G, 1e-9)
            if not t_forward_ok:
                res.fail("C07|%s|T.forward|%s" % (t_comp, t_facet), "T.forward differs from adjoint on the range basis "
                         "(max diff %r)" % (float(np.max(np.abs(TF - G))) if TF.shape == G.shape else TF.shape,),
                         TF=TF, G=G)
        TA = _try_columns(T0.adjoint, n, res, "T.adjoint",
                          raise_sig=("C07|LinearModel|T.adjoint-raises|%s" % gfacet) if strict else None)
        if TA is not None:
            res.evaluations += 1
            if not (TA.shape == F.shape and close(TA, F, 1e-9)):
                res.fail("C07|%s|T.adjoint|%s" % (t_comp, t_facet), "T.adjoint differs from forward on the domain basis "
                         "(max diff %r)" % (float(np.max(np.abs(TA - F))) if TA.shape == F.shape else TA.shape,),
                         TA=TA, F=F)
        res.outcomes.add("T:%s/%s" % ("ok" if t_forward_ok else ("refused" if TF is None else "differs"),
                                      "refused" if TA is None else "evaluated"))
        if TF is not None:
            _check_representations(res, "T.forward", T0.forward, m, rgeom, TF, w, strict, t_reps)
        if TA is not None:
            _check_representations(res, "T.adjoint", T0.adjoint, n, dgeom, TA, v, strict, t_reps)
        if t_forward_ok and judge_matrix:
            try:
                TM = _dense(T0.get_matrix())
                res.evaluations += 1
                res.transitions += m
                if not (TM.shape == G.shape and close(TM, G, 1e-9)):
                    if matrix_backed and not identity_geoms:   # same root cause as get_matrix() of the model itself
                        res.fail("C07|LinearModel|get_matrix|backing=matrix,geometry=non-identity",
                                 "matrix of the transpose model (the stored matrix transposed) does not reproduce "
                                 "T.forward column by column although T.forward == adjoint", TM=TM, G=G)
                    else:
                        res.fail("C07|LinearModel|T.get_matrix|backing=%s" % bk,
                                 "matrix of the transpose model does not reproduce T.forward column by column", TM=TM, G=G)
            except Exception as e:
                res.refused += 1
                res.outcomes.add("T.get_matrix-refused:" + type(e).__name__)

    # ---- (2) matrix representation ----------------------------------------------------------------
    try:
        A = _dense(model.get_matrix()) if judge_matrix else None
    except Exception as e:
        A = None
        res.refused += 1
        res.outcomes.add("get_matrix-refused:" + type(e).__name__)
    if A is not None:
        res.state("matrix")
        res.evaluations += 1
        res.transitions += n
        gm_ok = A.shape == F.shape and close(A, F, 1e-9)
        if not gm_ok:
            if matrix_backed and not identity_geoms:
                sig = "C07|LinearModel|get_matrix|backing=matrix,geometry=non-identity"
                why = " (the stored matrix is returned although forward also applies the geometry maps)"
            else:
                sig = "C07|LinearModel|get_matrix|%s" % gfacet
                why = ""
            res.fail(sig, "get_matrix() %s does not reproduce forward(e_i) column by column%s" % (A.shape, why), A=A, F=F)
        res.outcomes.add("get_matrix:%s" % ("ok" if gm_ok else "differs"))
        # the matrix must also be right on the second and third call on the same object (cached path)
        if gm_ok:
            for rep in (2, 3):
                try:
                    A2 = _dense(model.get_matrix())
                except Exception as e:
                    res.fail("C07|LinearModel|get_matrix-repeated|backing=%s" % bk, "call %d of get_matrix() raised %r" % (rep, e))
                    break
                res.transitions += 1
                if not (A2.shape == F.shape and close(A2, F, 1e-9)):
                    res.fail("C07|LinearModel|get_matrix-repeated|backing=%s" % bk,
                             "call %d of get_matrix() on the same model returns %s which no longer reproduces forward "
                             "column by column (the first call did)" % (rep, A2.shape), A2=A2, F=F)
                    break
        # ---- (3b) transpose model taken after the matrix is cached -----------------------------------
        try:
            T1 = model.T
            B = _dense(T1.get_matrix())
            res.evaluations += 1
            # faithfulness of the transposed model taken AFTER the matrix was cached: its matrix reproduces its own forward
            TF1 = _try_columns(T1.forward, m, res, "T.forward(cached)")
            # (with identity-like geometries the cached matrix transposed IS the transposed model's matrix, so a mismatch
            #  there only restates that the supplied adjoint function is not the transpose - already reported above)
            derived = (not adj_ok) and (identity_geoms or cell["fam"] in ("deconv2d",))
            if TF1 is not None and gm_ok and not derived and not (B.shape == TF1.shape and close(B, TF1, 1e-9)):
                res.fail("C07|LinearModel|T.get_matrix-after-caching|backing=%s" % bk,
                         "the matrix of a transposed model taken after get_matrix() had been called does not reproduce that "
                         "model's forward map column by column", B=B, TF=TF1)
            # forward must be unaffected by the matrix having been assembled / cached
            F2 = _try_columns(model.forward, n, res, "forward(after get_matrix)")
            if F2 is not None and not (F2.shape == F.shape and close(F2, F, 1e-9)):
                res.fail("C07|LinearModel|forward-after-get_matrix|backing=%s" % bk,
                         "forward(e_i) changed after get_matrix() was called on the same model", F_before=F, F_after=F2)
            # derived relation: with faithful matrices T.get_matrix() == get_matrix()^T iff adjoint == forward^T,
            # so it is only judged when the inner-product identity itself holds (one defect, one signature)
            if adj_ok and gm_ok and not (B.shape == A.T.shape and close(B, A.T, 1e-9)):
                res.fail("C07|LinearModel|T.get_matrix|cached,backing=%s" % bk,
                         "T.get_matrix() != get_matrix()^T")
            # the transpose of the transpose is the model again (matrix level)
            C = _dense(T1.T.get_matrix())
            if adj_ok and gm_ok and not (C.shape == A.shape and close(C, A, 1e-9)):
                res.fail("C07|LinearModel|T.T.get_matrix|backing=%s" % bk,
                         "T.T.get_matrix() != get_matrix()")
        except Exception as e:
            res.refused += 1
            res.outcomes.add("T-cached-refused:" + type(e).__name__)
    if res.sample is None:
        res.sample = {"F": F[:, : min(3, n)], "G^T": G.T[:, : min(3, n)], "adjoint_is_transpose": adj_ok}


def _variant_text(cell):
    """Written-out difference between the cell and its canonical twin (for messages)."""
    t = []
    for side in ("dk", "rk"):
        if side in cell and _base(cell[side]) != cell[side]:
            t.append("%s geometry %s for %s" % ("domain" if side == "dk" else "range", cell[side], _base(cell[side])))
    for key in ("PSF", "BC"):
        if key + "_as" in cell:
            t.append("%s=%r for %r" % (key, cell[key + "_as"], cell[key]))
    if cell.get("ints", "py") != "py":
        t.append("integer arguments as numpy.int64")
    return "; ".join(t)


def eval_cell(cell):
    res = CellResult(cell)
    try:
        model, comp, facet = build(cell)
    except Exception as e:
        res.transitions += 1
        res.nontrivial = False
        res.state("construct-raised")
        res.outcomes.add("construct-raised:%s" % type(e).__name__)
        comp = {"deconv1d": "Deconvolution1D", "deconv1d-legacy": "Deconvolution1D", "deconv2d": "Deconvolution2D",
                "abel": "Abel1D"}.get(cell["fam"], "LinearModel")
        canon = canonical(cell)
        if cell["fam"] in ("gen1", "gen2", "genview") and canon is None:
            # geometries and callables of the generic cells are within the documented use: nothing to refuse
            res.fail("C07|LinearModel|construct-raises|backing=%s,geometry=%s" %
                     (_bk(cell["backing"]), "image" if cell["fam"] == "gen2" else _gcat(cell)),
                     "constructing the geometries / the model raised: %r" % (e,))
            return res
        if canon is not None:
            # an option written in another accepted representation: refusing it is only consistent when the
            # canonical form of the same options is refused as well
            try:
                build(canon)
            except Exception:
                res.refused += 1
                return res
            res.fail("C07|%s|construct-raises|%s" % (comp, _variant_facet(cell)),
                     "construction raised %r although the same options in canonical form are accepted (%s)" %
                     (e, _variant_text(cell)))
            return res
        res.refused += 1      # construction of a shipped test problem refused
        return res
    res.count(cell["fam"])
    check_model(res, model, comp, facet, cell)
    return res
