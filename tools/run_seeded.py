#!/usr/bin/env python3
"""tools/run_seeded.py [seed-id ...] [--tier quick|thorough] [--all-props]
Applies each seeded change to /repo (git apply), runs the property's check (and with --all-props every claimed check),
records which violation signatures were raised in seeded/<id>/meta.json, and undoes the change straight afterwards
(git checkout -- .), also on error."""
import json, os, re, subprocess, sys
ROOT = "/verif"
args = [a for a in sys.argv[1:] if not a.startswith("--")]
tier = "thorough" if "--tier" in sys.argv and sys.argv[sys.argv.index("--tier") + 1] == "thorough" else "quick"
if "--tier" in sys.argv:
    args = [a for a in args if a not in ("quick", "thorough")]
ids = args or sorted(os.listdir(os.path.join(ROOT, "seeded")))
allprops = "--all-props" in sys.argv
claimed = [c["property_id"] for c in json.load(open(os.path.join(ROOT, "MANIFEST.json")))["checks"]]
assert subprocess.run(["git", "-C", "/repo", "status", "--porcelain", "--untracked-files=no"], capture_output=True, text=True).stdout.strip() == "", "/repo not clean"
for sid in ids:
    d = os.path.join(ROOT, "seeded", sid)
    meta = json.load(open(os.path.join(d, "meta.json")))
    props = claimed if allprops else [meta["property"]]
    r = subprocess.run(["git", "-C", "/repo", "apply", os.path.join(d, "patch.diff")], capture_output=True, text=True)
    if r.returncode != 0:
        print(sid, "PATCH DOES NOT APPLY", r.stderr[-200:])
        continue
    try:
        res = {}
        for p in props:
            ev = os.path.join(ROOT, "evidence", p + ".json")       # evidence belongs to the unchanged tree: keep it
            keep = open(ev).read() if os.path.exists(ev) else None
            out = subprocess.run([os.path.join(ROOT, "check"), p, "--tier", tier], capture_output=True, text=True, cwd=ROOT)
            if keep is not None:
                open(ev, "w").write(keep)
            sigs = sorted(set(re.findall(r"signature=(\S+)", out.stdout)))
            res[p] = {"exit": out.returncode, "violation_signatures": sigs}
            print("%s: check %s (%s) exit=%d %s" % (sid, p, tier, out.returncode, "; ".join(sigs)[:300] or "-"))
    finally:
        subprocess.run(["git", "-C", "/repo", "checkout", "--", "."], check=True)
    meta.setdefault("detection", {})[tier] = res
    meta["detected"] = any(v["exit"] == 1 for t in meta["detection"].values() for v in t.values())
    json.dump(meta, open(os.path.join(d, "meta.json"), "w"), indent=1)
assert subprocess.run(["git", "-C", "/repo", "status", "--porcelain", "--untracked-files=no"], capture_output=True, text=True).stdout.strip() == ""
