#!/bin/bash
# tools/run_all.sh [quick|thorough] [seed] : run every claimed check, one line each (exit codes shown)
cd "$(dirname "$0")/.." || exit 2
TIER=${1:-quick}; SEED=${2:-0}
rc=0
for id in $(python3 -c "import json;print(' '.join(c['property_id'] for c in json.load(open('MANIFEST.json'))['checks']))"); do
  out=$(VERIF_SEED=$SEED ./check $id --tier $TIER 2>&1); e=$?
  echo "[$id exit=$e] $(echo "$out" | grep "^$id tier" | tail -1)"
  echo "$out" | grep "^VIOLATION\|^HARNESS\|EVIDENCE-INVALID\|VACUOUS" | head -5
  [ $e -ne 0 ] && rc=1
done
exit $rc
