#!/usr/bin/env python3
"""tools/import_seed.py <seed-id> <property> <src SEED dir> : copy a confirmed seeded change into /verif/seeded/<seed-id>/
(patch.diff, demo.py, notes.md) and make sure patch.diff applies to /repo's current HEAD (re-generated with a 3-way
merge in a throw-away worktree when the change was written against the pinned tree)."""
import json, os, shutil, subprocess, sys, tempfile
sid, prop, src = sys.argv[1], sys.argv[2], sys.argv[3]
dst = os.path.join("/verif/seeded", sid)
os.makedirs(dst, exist_ok=True)
for f in ("patch.diff", "demo.py", "notes.md"):
    if os.path.exists(os.path.join(src, f)):
        shutil.copy(os.path.join(src, f), os.path.join(dst, f))
patch = os.path.join(dst, "patch.diff")
ok = subprocess.run(["git", "-C", "/repo", "apply", "--check", patch], capture_output=True).returncode == 0
status = "applies to /repo HEAD"
if not ok:
    shutil.copy(patch, os.path.join(dst, "patch.pinned.diff"))
    wt = tempfile.mkdtemp(prefix="wt_imp_", dir="/tmp")
    os.rmdir(wt)
    subprocess.run(["git", "-C", "/repo", "worktree", "add", "-q", "--detach", wt, "HEAD"], check=True)
    r = subprocess.run(["git", "-C", wt, "apply", "--3way", os.path.join(dst, "patch.pinned.diff")], capture_output=True, text=True)
    if r.returncode == 0:
        d = subprocess.run(["git", "-C", wt, "diff", "HEAD", "--", "cuqi"], capture_output=True, text=True).stdout
        open(patch, "w").write(d)
        status = "re-generated against /repo HEAD by 3-way merge (original: patch.pinned.diff)"
    else:
        status = "DOES NOT APPLY to /repo HEAD: " + r.stderr[-300:]
    subprocess.run(["git", "-C", "/repo", "worktree", "remove", "--force", wt])
meta_path = os.path.join(dst, "meta.json")
meta = json.load(open(meta_path)) if os.path.exists(meta_path) else {}
meta.update({"id": sid, "property": prop, "patch_status": status})
json.dump(meta, open(meta_path, "w"), indent=1)
print(sid, status)
