#!/bin/bash
# tools/confirm_seed.sh <scratch-worktree> <patch.diff> <demo.py> [--suite]
# Confirms in a scratch worktree (never /repo): demo passes on the clean tree, fails with the patch,
# and (with --suite) the unedited test-suite still passes with the patch. Leaves the worktree clean.
WT=$1; PATCH=$(realpath $2); DEMO=$(realpath $3); SUITE=$4
cd "$WT" || exit 2
git checkout -q -- cuqi 2>/dev/null
export OMP_NUM_THREADS=1 OPENBLAS_NUM_THREADS=1 MKL_NUM_THREADS=1
cp "$DEMO" ./_demo.py
/venv/bin/python -W ignore _demo.py >/dev/null 2>&1; c=$?
git apply "$PATCH" || { echo "patch does not apply"; exit 2; }
/venv/bin/python -W ignore _demo.py >/dev/null 2>&1; m=$?
echo "demo: clean exit=$c, mutated exit=$m"
if [ "$SUITE" = "--suite" ]; then
  /venv/bin/python -m pytest -q -p no:cacheprovider --timeout=900 --continue-on-collection-errors 2>&1 | tail -2
fi
git checkout -q -- cuqi; rm -f _demo.py; git status --short | grep -v SEED | head -3
