#!/usr/bin/env python3
"""Regenerates /verif/MANIFEST.json from the table below (only properties whose check module exists are claimed)."""
import json, os, sys
ROOT = os.path.dirname(os.path.dirname(os.path.abspath(__file__)))

ENGINES = {
    "E1": "history explorer: explicit-state BFS over operation sequences on real objects, histories never merged, differential oracle per canonical key",
    "E2": "environment explorer: scripted random stream, symbolic uniform draws, complete decision-tree enumeration (stateless DFS with prefix replay)",
    "E3": "configuration explorer: full Cartesian product of option domains x complete basis / lattice of inputs against a dense reference model",
}
CHECKS = {
 "C01": ("E1", "exhaustive enumeration of all conditioning histories (ordered set partitions x keyword/positional) of each model graph on the real objects; every history's log-density compared with an independent reference joint",
         "all conditioning orders/groupings/modes of a catalogue of <=4-variable model graphs; values from 3 dyadic catalogues", "2.C01"),
 "C02": ("E2", "complete decision-tree enumeration of single MH/CWMH/pCN/MALA transitions under a symbolic uniform, proposal map identified on the noise basis, compared leaf by leaf with a reference Metropolis-Hastings kernel + reverse-edge detailed balance",
         "pi = target's own logd; catalogue of targets x lattice states x lattice noise; invariance for all targets by the textbook theorem", "2.C02"),
 "C03": ("E3", "full product of distribution families/parameterisations/composite objects x evaluation points, gradient compared with Richardson central differences of the same object's logd",
         "finite-difference reference accepted at 1e-5; catalogue values", "2.C03"),
 "C04": ("E3", "full product of families x parameter passing forms x dims (both sides of the sparse switch) against scipy/textbook densities, quadrature normalisation for 1-D",
         "scipy.stats and numpy dense linear algebra as reference", "2.C04"),
 "C05": ("E2", "draws decided without sampling: normal requests answered by the complete basis (affine map identification), generator calls captured and their law compared with the object's logpdf, rejection samplers via symbolic uniforms",
         "law of numpy/scipy primitive generators is the trusted base", "2.C05"),
 "C06": ("E2", "one RTO/UGLA step with the N(0,I) perturbation answered by the complete basis of the stacked right-hand side; identified affine map compared with closed-form posterior mean/covariance over the product of Gaussian input forms",
         "inner solver to convergence (1e-7); symmetric matrix roots", "2.C06"),
 "C07": ("E3", "forward/adjoint evaluated on the complete bases of domain and range (whole matrices compared) over the product of model kinds, geometries and all shipped linear test-problem options",
         "linearity makes a basis complete; sizes bounded", "2.C07"),
 "C08": ("E2", "exact orbit-wise check: for every orbit point of a window the real NUTS transition's full uniform-decision tree is enumerated; rows/columns of the induced matrix on orbit indices must be doubly stochastic on the slice; every leaf replayed on a reference NUTS model",
         "orbits/slice levels are a catalogue; any number of transitions by composition", "2.C08"),
 "C09": ("E1", "all operation sequences (warmup/sample) x sampler assignments x step counts on real Gibbs samplers with spy block samplers, compared step by step with a dictionary reference sweep; real MH blocks under symbolic uniforms",
         "joint invariance by composition with C02/C06/C10", "2.C09"),
 "C10": ("E2", "Gamma request intercepted (distribution actually drawn from is known exactly) over the product of supported conjugate pairs; captured log-density minus target logd must be constant on a grid; unsupported structures must be refused",
         "grid of hyper-parameter values; numpy gamma generator law trusted", "2.C10"),
 "C11": ("E1", "all operation sequences up to depth 3/4 over condition/logd/gradient/sample/to_likelihood/model application/Gibbs sweep on an original and its derived copies; behavioural fingerprints of every earlier object re-taken after each step",
         "fingerprint = names, conditioning variables, logd/gradient at probes, seeded draw", "2.C11"),
 "C12": ("E3", "full product of model kinds x geometries x input representations x basis/generic points against harness-composed fun2par(f(par2fun(p))) and Richardson Jacobians",
         "catalogue of models/geometries", "2.C12"),
 "C13": ("E3", "full product of geometry families and their options (exact rational arithmetic for the step-expansion partition) x parameter basis x batch sizes",
         "bounded sizes", "2.C13"),
 "C14": ("E1", "all operation sequences over sample(1)/sample(2)/checkpoint-reload/state round trip (every position a crash point) up to 5 transitions per sampler, each compared with the uninterrupted reference run; stateless interface over all (N,Nb) in a box",
         "real seeded generator whose position is part of the state", "2.C14"),
 "C15": ("E3", "full product of linear-Gaussian problem forms against the closed-form posterior mean + exhaustive lattice-neighbour optimality check; direct sampling route via perturbation basis",
         "optimiser tolerances calibrated to scipy defaults", "2.C15"),
 "C16": ("E3", "full product of solver x problem forms; optimality residuals and exhaustive lattice variational characterisation of projections/proximal maps",
         "deterministic well-conditioned matrices", "2.C16"),
 "C17": ("E3", "every constructor option combination of the shipped test problems against explicit-index reference operators on the full basis; noise decided exactly via the scripted stream",
         "bounded sizes", "2.C17"),
 "C18": ("E3", "full product of PDE forms x solvers x time grids x observation options against 3-line reference recurrences and independent interpolation",
         "bounded grids", "2.C18"),
 "C19": ("E1", "all sequences of burnthin/representation conversions up to length 3 on real Samples objects compared step by step with a numpy-list reference; statistics product against numpy",
         "bounded dims/sample counts", "2.C19"),
 "C20": ("E3", "every (dimension, size, boundary condition, order, spacing) cell compared as whole matrices with index-formula reference stencils; priors evaluated on basis + generic points",
         "bounded sizes; undocumented 'backward' rows compared up to sign", "2.C20"),
}
PENDING_REASON = "check not yet built in this session (planned: bounded exhaustive exploration per DESIGN.md section 2)"

def main():
    props = [json.loads(l) for l in open(os.path.join(ROOT, "properties.jsonl"))]
    checks, na = [], []
    for p in props:
        pid = p["id"]
        eng, tech, note, ref = CHECKS[pid]
        ready = set(open(os.path.join(ROOT, "tools", "ready.txt")).read().split())
        if not os.path.exists(os.path.join(ROOT, "checks", pid.lower() + ".py")) or pid not in ready:
            na.append({"property_id": pid, "reason": PENDING_REASON})
            continue
        checks.append({
            "property_id": pid,
            "quick_cmd": "./check %s --tier quick" % pid,
            "thorough_cmd": "./check %s --tier thorough" % pid,
            "evidence_file": "/verif/evidence/%s.json" % pid,
            "replay_cmd_template": "./check %s --replay {path}" % pid,
            "engine": eng,
            "level_claimed": {"category": "model_checking",
                              "text": "Bounded exhaustive exploration on the real code: " + tech + ". Every explored trace of the reference model is replayed on the implementation; the bound completed is reported in the evidence.",
                              "design_ref": "DESIGN.md section " + ref},
            "level_note": note + " (plan-level summary; the as-built alphabet, bound and assumptions of the check are its module's RULE / BOUND / ASSUMPTIONS, echoed in every evidence file, and DESIGN.md section 7)",
            "technique": "bounded exhaustive model checking (%s: %s)" % (eng, ENGINES[eng].split(":")[0]),
        })
    man = {
        "version": 1,
        "setup_cmd": "cd /verif && /venv/bin/python -c \"import sys; sys.path.insert(0,'/repo'); import cuqi, numpy, scipy\" && python3-vt -c \"import jsonschema\"",
        "hooks": {"guard": "CUQIPY_VERIF", "enable": "no source hooks are needed: checks import cuqi from /repo's working tree (PYTHONPATH) and own every seam from outside; the guard variable is exported by ./check but read by nothing in /repo",
                  "baseline_off_cmd": "cd /repo && /venv/bin/python -m pytest -ra -q -p no:cacheprovider --timeout=900 --continue-on-collection-errors",
                  "source_commits": [], "add_only": True},
        "engines": [{"name": k, "path": "/verif/vfw", "serves_properties": [c["property_id"] for c in checks if c["engine"] == k], "kind_free_text": v} for k, v in ENGINES.items()],
        "checks": checks,
        "not_applicable": na,
        "notes": "Run ./check <ID> [--tier quick|thorough] [--seed S]. Known findings: /verif/known_findings.json. Seeded breaking changes: /verif/seeded/. See DESIGN.md.",
    }
    json.dump(man, open(os.path.join(ROOT, "MANIFEST.json"), "w"), indent=1)
    print("claimed:", [c["property_id"] for c in checks]); print("not claimed:", [n["property_id"] for n in na])

if __name__ == "__main__":
    main()
