#!/usr/bin/env python3
"""tools/run_seeded_par.py [seed-id ...] [--jobs N] [--tier quick|thorough]
Development aid (NOT the recorded protocol, which is tools/run_seeded.py on /repo itself): applies each seeded change to one
of N throw-away worktrees of /repo HEAD under /tmp, points the property's check at it through VERIF_REPO (evidence and
replays redirected to a scratch directory) and prints the violation signatures. Nothing is written to seeded/*/meta.json unless --record is given."""
import json, os, re, shutil, subprocess, sys, tempfile
from concurrent.futures import ThreadPoolExecutor
import queue
ROOT = "/verif"
argv = sys.argv[1:]
jobs = int(argv[argv.index("--jobs") + 1]) if "--jobs" in argv else 4
tier = argv[argv.index("--tier") + 1] if "--tier" in argv else "quick"
ids = [a for i, a in enumerate(argv) if not a.startswith("--") and (i == 0 or argv[i - 1] not in ("--jobs", "--tier"))]
ids = ids or sorted(os.listdir(os.path.join(ROOT, "seeded")))
pool = queue.Queue()
wts = []
for k in range(jobs):
    wt = tempfile.mkdtemp(prefix="wt_par%d_" % k, dir="/tmp"); os.rmdir(wt)
    subprocess.run(["git", "-C", "/repo", "worktree", "add", "-q", "--detach", wt, "HEAD"], check=True)
    wts.append(wt); pool.put(wt)
scratch = tempfile.mkdtemp(prefix="ev_par_", dir="/tmp")

def one(sid):
    d = os.path.join(ROOT, "seeded", sid)
    prop = json.load(open(os.path.join(d, "meta.json")))["property"]
    wt = pool.get()
    try:
        r = subprocess.run(["git", "-C", wt, "apply", os.path.join(d, "patch.diff")], capture_output=True, text=True)
        if r.returncode != 0:
            return "%s PATCH DOES NOT APPLY %s" % (sid, r.stderr[-150:])
        ev = os.path.join(scratch, sid); os.makedirs(ev, exist_ok=True)
        env = dict(os.environ, VERIF_REPO=wt, VERIF_EVIDENCE_DIR=ev, VERIF_REPLAY_DIR=ev)
        out = subprocess.run([os.path.join(ROOT, "check"), prop, "--tier", tier, "--jobs", str(max(2, 16 // jobs))], capture_output=True, text=True, cwd=ROOT, env=env)
        sigs = sorted(set(re.findall(r"signature=(\S+)", out.stdout)))
        tail = "" if out.returncode in (0, 1) else " :: " + (out.stdout + out.stderr).strip().split("\n")[-1][:200]
        if "--record" in argv:      # fallback record (the protocol of record is tools/run_seeded.py on /repo itself)
            mp = os.path.join(d, "meta.json")
            meta = json.load(open(mp))
            meta.setdefault("detection", {})[tier] = {prop: {"exit": out.returncode, "violation_signatures": sigs,
                                                             "how": "scratch worktree of /repo HEAD + VERIF_REPO (tools/run_seeded_par.py)"}}
            meta["detected"] = any(v["exit"] == 1 for t in meta["detection"].values() for v in t.values())
            json.dump(meta, open(mp, "w"), indent=1)
        return "%s: check %s (%s) exit=%d %s%s" % (sid, prop, tier, out.returncode, "; ".join(sigs)[:260] or "-", tail)
    finally:
        subprocess.run(["git", "-C", wt, "checkout", "--", "."], check=True)
        pool.put(wt)
try:
    with ThreadPoolExecutor(jobs) as ex:
        for line in ex.map(one, ids):
            print(line, flush=True)
finally:
    for wt in wts:
        subprocess.run(["git", "-C", "/repo", "worktree", "remove", "--force", wt])
    shutil.rmtree(scratch, ignore_errors=True)
