#!/usr/bin/env python3
"""tools/seed_meta.py <seed-id> "<what it needs to manifest>" : confirm demo (clean exit 0 / mutated exit !=0) and the
unedited test-suite on a throw-away worktree of /repo HEAD, and record everything in seeded/<id>/meta.json."""
import json, os, subprocess, sys, tempfile
sid, needs = sys.argv[1], sys.argv[2]
d = os.path.join("/verif/seeded", sid)
meta = json.load(open(os.path.join(d, "meta.json")))
wt = tempfile.mkdtemp(prefix="wt_meta_", dir="/tmp"); os.rmdir(wt)
subprocess.run(["git", "-C", "/repo", "worktree", "add", "-q", "--detach", wt, "HEAD"], check=True)
env = dict(os.environ, OMP_NUM_THREADS="1", OPENBLAS_NUM_THREADS="1", MKL_NUM_THREADS="1")
try:
    subprocess.run(["cp", os.path.join(d, "demo.py"), os.path.join(wt, "_demo.py")], check=True)
    c = subprocess.run(["/venv/bin/python", "-W", "ignore", "_demo.py"], cwd=wt, capture_output=True, env=env).returncode
    subprocess.run(["git", "-C", wt, "apply", os.path.join(d, "patch.diff")], check=True)
    m = subprocess.run(["/venv/bin/python", "-W", "ignore", "_demo.py"], cwd=wt, capture_output=True, env=env).returncode
    os.remove(os.path.join(wt, "_demo.py"))
    s = subprocess.run(["/venv/bin/python", "-m", "pytest", "-q", "-p", "no:cacheprovider", "--timeout=900",
                        "--continue-on-collection-errors"], cwd=wt, capture_output=True, text=True, env=env)
    suite = s.stdout.strip().split("\n")[-1]
finally:
    subprocess.run(["git", "-C", "/repo", "worktree", "remove", "--force", wt])
meta.update({"needs_to_manifest": needs,
             "confirmed": {"demo_exit_on_unchanged_tree": c, "demo_exit_with_patch": m, "test_suite_with_patch": suite,
                           "how": "throw-away git worktree of /repo HEAD under /tmp (removed); suite = baseline pytest command, "
                                  "single-threaded BLAS; checks run by tools/run_seeded.py (git -C /repo apply ... checkout -- .)"}})
json.dump(meta, open(os.path.join(d, "meta.json"), "w"), indent=1)
print(sid, "demo clean=%d mutated=%d" % (c, m), suite)
