#!/bin/bash
# tools/run_seeds.sh "<ids>" "<seeds>" [tier] : run the given checks for each seed, one summary line per run
cd "$(dirname "$0")/.." || exit 2
TIER=${3:-quick}
for s in $2; do for id in $1; do
  out=$(./check $id --tier $TIER --seed $s 2>&1); e=$?
  echo "[$id seed=$s exit=$e] $(echo "$out" | grep "^$id tier" | tail -1)"
  echo "$out" | grep "^VIOLATION\|signature=\|HARNESS\|EVIDENCE-INVALID\|VACUOUS\|Traceback" | head -6
done; done
