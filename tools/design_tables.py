#!/usr/bin/env python3
"""Markdown tables of DESIGN.md section 7 from evidence/*.json, MANIFEST.json and seeded/*/meta.json.
   tools/design_tables.py            prints them
   tools/design_tables.py --update   re-writes the two generated tables of DESIGN.md in place"""
import json, glob, sys
R = "/verif"


def coverage_table():
    out = ["| check | engine | cells | states | transitions | traces replayed | distinct outcomes | refused | known | wall (quick) |",
           "|---|---|---|---|---|---|---|---|---|---|"]
    man = {c["property_id"]: c for c in json.load(open(R + "/MANIFEST.json"))["checks"]}
    for p in sorted(man):
        e = json.load(open(R + "/evidence/%s.json" % p))
        c = e["coverage"]
        out.append("| %s | %s | %d | %d | %d | %d | %d | %d | %d | %.0f s |" % (
            p, man[p]["engine"], c["cells_total"], c["states"], c["transitions"], c["traces_validated_against_impl"],
            c["distinct_observed_outcomes"], c["refused_by_implementation"], len(c["known_findings_observed"]), e["wall_s"]))
    return "\n".join(out)


def seeds_table():
    out = ["| seed | needs to manifest | first detected by (quick tier) | signatures |", "|---|---|---|---|"]
    for d in sorted(glob.glob(R + "/seeded/C*"), key=lambda x: (x.split("/")[-1].split("-")[0], int(x.split("-")[-1]))):
        m = json.load(open(d + "/meta.json"))
        det = m.get("detection", {}).get("quick", {})
        sigs = []
        for p, v in det.items():
            if v["exit"] == 1:
                sigs += v["violation_signatures"]
        short = sorted(set("|".join(s.split("|")[1:3]) for s in sigs))
        needs = " ".join(m.get("needs_to_manifest", "").replace("|", "/").split())
        who = ", ".join(p for p, v in det.items() if v["exit"] == 1) or ("equivalent after fix %s (detected before it)" % m["equivalent_after_fix"].split(":")[0] if m.get("equivalent_after_fix") else "MISSED")
        out.append("| %s | %s | %s | %s |" % (m["id"], needs[:200], who,
                                              "; ".join(short)[:200].replace("|", " / ")))
    return "\n".join(out)


def update_design(path=R + "/DESIGN.md"):
    s = open(path).read()

    def repl(text, header_start, new):
        i = text.index(header_start)
        lines = text[i:].split("\n")
        n = 0
        while n < len(lines) and lines[n].startswith("|"):
            n += 1
        old = "\n".join(lines[:n])
        return text[:i] + new + text[i + len(old):]
    s = repl(s, "| check | engine | cells |", coverage_table())
    s = repl(s, "| seed | needs to manifest |", seeds_table())
    open(path, "w").write(s)


if __name__ == "__main__":
    if "--update" in sys.argv:
        update_design()
    else:
        print(coverage_table())
        print()
        print(seeds_table())
