#!/usr/bin/env python3
"""Prints the markdown tables of DESIGN.md section 7 from evidence/*.json, known_findings.json and seeded/*/meta.json."""
import json, glob, os
R = "/verif"
print("| check | engine | cells | states | transitions | traces replayed | distinct outcomes | refused | known | wall (quick) |")
print("|---|---|---|---|---|---|---|---|---|---|")
man = {c["property_id"]: c for c in json.load(open(R + "/MANIFEST.json"))["checks"]}
for p in sorted(man):
    e = json.load(open(R + "/evidence/%s.json" % p)); c = e["coverage"]
    print("| %s | %s | %d | %d | %d | %d | %d | %d | %d | %.0f s |" % (p, man[p]["engine"], c["cells_total"], c["states"], c["transitions"],
          c["traces_validated_against_impl"], c["distinct_observed_outcomes"], c["refused_by_implementation"], len(c["known_findings_observed"]), e["wall_s"]))
print()
print("| seed | needs to manifest | first detected by (quick tier) | signatures |")
print("|---|---|---|---|")
for d in sorted(glob.glob(R + "/seeded/*")):
    m = json.load(open(d + "/meta.json"))
    det = m.get("detection", {}).get("quick", {})
    sigs = []
    for p, v in det.items():
        if v["exit"] == 1:
            sigs += v["violation_signatures"]
    short = sorted(set("|".join(s.split("|")[1:3]) for s in sigs))
    print("| %s | %s | %s | %s |" % (m["id"], m.get("needs_to_manifest", "")[:160], ", ".join(p for p, v in det.items() if v["exit"] == 1) or "MISSED",
                                    "; ".join(short)[:160]))
