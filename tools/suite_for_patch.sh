#!/bin/bash
# tools/suite_for_patch.sh <patch.diff> [base-commit=HEAD] : run the repository's unedited test-suite (baseline command,
# single-threaded BLAS) on a throw-away worktree of /repo at <base> with the patch applied; prints the summary line.
PATCH=$(realpath "$1"); BASE=${2:-HEAD}
WT=$(mktemp -d /tmp/wt_suite_XXXX); rmdir "$WT"
git -C /repo worktree add -q --detach "$WT" "$BASE" || exit 2
cd "$WT" && git apply "$PATCH" || { echo "PATCH DOES NOT APPLY: $PATCH"; git -C /repo worktree remove --force "$WT"; exit 2; }
export OMP_NUM_THREADS=1 OPENBLAS_NUM_THREADS=1 MKL_NUM_THREADS=1
/venv/bin/python -m pytest -q -p no:cacheprovider --timeout=900 --continue-on-collection-errors 2>&1 | tail -1 | sed "s#^#$(basename $(dirname $PATCH)): #"
cd /; git -C /repo worktree remove --force "$WT"
