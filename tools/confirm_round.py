#!/usr/bin/env python3
"""tools/confirm_round.py <needs.tsv> [parallel=6]: run tools/seed_meta.py for every line "<seed-id>\\t<needs>" (demo on a clean
and on the mutated throw-away worktree + the unedited test-suite with the patch), N at a time."""
import subprocess, sys
from concurrent.futures import ThreadPoolExecutor
rows = [l.rstrip("\n").split("\t", 1) for l in open(sys.argv[1]) if l.strip()]
n = int(sys.argv[2]) if len(sys.argv) > 2 else 6
def one(r):
    out = subprocess.run(["/venv/bin/python", "/verif/tools/seed_meta.py", r[0], r[1]], capture_output=True, text=True)
    line = (out.stdout.strip().split("\n") or [""])[-1] or out.stderr[-300:]
    print(line, flush=True)
with ThreadPoolExecutor(n) as ex:
    list(ex.map(one, rows))
